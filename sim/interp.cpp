#include "interp.hpp"
#include <sys/mman.h>

Probes g_probes;
Coverage g_cover;
SpecSkinny g_spec;
volatile int g_trace_gate = 0;
volatile int g_trace_op = -1;

extern "C" char __executable_start;
namespace {

struct Exec {
    const Plan &plan; const ExecCfg &cfg; RunResult &R;
    EventLog log;
    std::vector<SlotState> S;
    uint64_t w_stack, w_heap; uint8_t fillb;
    bool stop = false;
    int cur = -1;

    Exec(const Plan &p, const ExecCfg &c, RunResult &r) : plan(p), cfg(c), R(r) {}

    bool on(uint32_t ck) const { return (cfg.checks & ck) != 0; }
    void violate(const char *inv, const std::string &msg) {
        Violation v; v.inv = inv; v.op = cur; v.msg = msg;
        R.viol.push_back(v); stop = true;
        log.ev("VIOLATION", hash_str(inv), cur);
    }
    void tr(const std::string &s) { if (cfg.trace) R.trace.push_back(s); }

    // ---------------------------------------------------------------- reference (model) side
    template <class F> bool model_call(F f) {
        bool ok = GUARDED_CALL_DIRTY(~w_stack ^ (uint64_t)cur * 0x1234567, f());
        if (!ok) violate("reference-crash", strf("a scalar reference call made by the model crashed (signal %d at %s)", g_crash.sig, classify_addr((void *)g_crash.addr).c_str()));
        return ok;
    }
    static unsigned primary(unsigned size, unsigned bs) { return ((size + bs - 1) / bs) * bs; }

    // (re)build the reference schedule of a slot from the model's (key, tweak, rounds, mode)
    void rebuild_ref(SlotState &st) {
        int fam = kind_fam(st.kind); unsigned bs = kind_bs(st.kind);
        Bytes key = st.key; unsigned ksz = st.keysize;
        if (on(CK_PAD) || on(CK_FRESH)) { ksz = primary(ksz, bs); key.resize(ksz, 0); }
        bool nz = false; for (unsigned i = 0; i < bs; ++i) nz |= st.tweak[i] != 0;
        model_call([&] {
            if (fam == 0) {
                memset(&st.r128, 0, sizeof st.r128);
                if (st.tweaked) { skinny128_set_tweaked_key(&st.r128, key.data(), ksz); if (nz) skinny128_set_tweak(&st.r128, st.tweak, 16); }
                else skinny128_set_key(&st.r128.ks, key.data(), ksz);
            } else if (fam == 1) {
                memset(&st.r64, 0, sizeof st.r64);
                if (st.tweaked) { skinny64_set_tweaked_key(&st.r64, key.data(), ksz); if (nz) skinny64_set_tweak(&st.r64, st.tweak, 8); }
                else skinny64_set_key(&st.r64.ks, key.data(), ksz);
            } else {
                memset(&st.rm, 0, sizeof st.rm);
                mantis_set_key(&st.rm, key.data(), 16, st.rounds, st.mode);
                if (nz) mantis_set_tweak(&st.rm, st.tweak, 8);
            }
        });
    }
    Bytes ref_canon(const SlotState &st) {
        switch (st.kind) {
        case K128: return canon_schedule(K128, &st.r128.ks);
        case TK128: { if (st.tweaked) return canon_schedule(TK128, &st.r128); Bytes v = canon_schedule(K128, &st.r128.ks); return v; }
        case K64: return canon_schedule(K64, &st.r64.ks);
        case TK64: { if (st.tweaked) return canon_schedule(TK64, &st.r64); return canon_schedule(K64, &st.r64.ks); }
        case MK: return canon_schedule(MK, &st.rm);
        }
        return Bytes();
    }
    Bytes obj_canon(const SlotState &st) {
        if (st.kind == TK128 && !st.tweaked) return canon_schedule(K128, &((Skinny128TweakedKey_t *)st.h)->ks);
        if (st.kind == TK64 && !st.tweaked) return canon_schedule(K64, &((Skinny64TweakedKey_t *)st.h)->ks);
        return canon_schedule(st.kind, st.h);
    }
    // E_K(block) by the model
    void ref_block(SlotState &st, const uint8_t *in, uint8_t *out, bool dec, const uint8_t *mtweak = nullptr) {
        int fam = kind_fam(st.kind); unsigned bs = kind_bs(st.kind);
        if (on(CK_FRESH) && st.tweaked && fam != 2) {
            unsigned ksz = primary(st.keysize, bs);
            uint8_t tk[48]; memset(tk, 0, sizeof tk);
            memcpy(tk, st.tweak, bs); memcpy(tk + bs, st.key.data(), st.key.size() < ksz ? st.key.size() : ksz);
            g_spec.crypt(bs, tk, 1 + ksz / bs, true, in, out, dec);
            return;
        }
        if (fam == 0) { if (dec) skinny128_ecb_decrypt(out, in, &st.r128.ks); else skinny128_ecb_encrypt(out, in, &st.r128.ks); }
        else if (fam == 1) { if (dec) skinny64_ecb_decrypt(out, in, &st.r64.ks); else skinny64_ecb_encrypt(out, in, &st.r64.ks); }
        else { if (mtweak) mantis_ecb_crypt_tweaked(out, in, mtweak, &st.rm); else mantis_ecb_crypt(out, in, &st.rm); }
    }

    // ---------------------------------------------------------------- validity model
    static bool keysize_ok(int kind, int code, unsigned size, int rounds) {
        unsigned bs = kind_bs(kind);
        if (is_mantis(kind)) return size == 16 && rounds >= 5 && rounds <= 8;
        if (code == OP_SETTKEY) return size >= bs && size <= 2 * bs;
        return size >= bs && size <= 3 * bs;
    }
    // 1 / 0 expected return; -1 void; -2 undefined (never compared)
    int expect(const Op &o, const SlotState &st) {
        int k = st.kind;
        bool nobj = o.flags & F_NULLOBJ, na = o.flags & F_NULLA;
        if (o.code == OP_CLEANUP || o.code == OP_SWAP || o.code == OP_ZERO) return -1;
        if (is_obj(k)) {
            if (o.code == OP_INIT) return nobj ? 0 : -2;   // decided after the call (allocation fault fired or not)
            if (nobj || st.life != L_INIT) return 0;
            switch (o.code) {
            case OP_SETKEY: return !na && keysize_ok(k, o.code, o.size, o.rounds);
            case OP_SETTKEY: return !na && keysize_ok(k, o.code, o.size, o.rounds);
            case OP_SETTWEAK: return is_mantis(k) ? o.size == 8 : (o.size >= 1 && o.size <= (unsigned)kind_bs(k));
            case OP_SETCTR: return o.size <= (unsigned)kind_bs(k);
            case OP_ENC: return !na && !(o.flags & F_NULLOUT);
            case OP_PENC: case OP_PDEC: return o.size % kind_bs(k) == 0;
            }
            return -2;
        }
        if (nobj) return 0;
        switch (o.code) {
        case OP_SETKEY: case OP_SETTKEY: return !na && keysize_ok(k, o.code, o.size, o.rounds);
        case OP_SETTWEAK: return k == MK ? o.size == 8 : (o.size >= 1 && o.size <= (unsigned)kind_bs(k));
        }
        return -2;
    }
    // Is this op defined at all in the slot's current state?  Undefined ops are skipped, which
    // keeps every subsequence of a plan a valid plan.
    bool defined(const Op &o, const SlotState &st) {
        int k = st.kind; bool nobj = o.flags & F_NULLOBJ;
        if (cfg.strip_injected && (o.flags & F_INJECTED)) return false;
        switch (o.code) {
        case OP_INIT: return is_obj(k) && (nobj || st.life != L_INIT);
        case OP_ZERO: return is_obj(k) && st.life != L_INIT;
        case OP_CLEANUP: return is_obj(k) && (nobj || st.life != L_RAW);
        case OP_SWAP: return (k == MK && st.keyed && !nobj) || (k == PM && (st.life != L_RAW) && (st.life != L_INIT || st.keyed) && !nobj);
        case OP_SETKEY: if (is_obj(k)) return nobj || st.life != L_RAW; return true;
        case OP_SETTKEY: if (k == CTR128 || k == CTR64) return nobj || st.life != L_RAW; return is_tks(k);
        case OP_SETTWEAK:
            if (nobj) return is_tks(k) || k == MK || is_ctr(k);
            if (is_tks(k)) return st.keyed && st.tweaked;
            if (k == MK) return st.keyed;
            if (k == CTR128 || k == CTR64) return st.life != L_RAW && (st.life != L_INIT || (st.keyed && st.tweaked) || cfg.allow_odd);
            if (k == MCTR) return st.life != L_RAW && (st.life != L_INIT || st.keyed || cfg.allow_odd);
            return false;
        case OP_SETCTR: return is_ctr(k) && (nobj || st.life != L_RAW);
        case OP_ENC:
            if (!is_ctr(k)) return false;
            if (nobj) return true;
            if (st.life == L_RAW) return false;
            if (st.life == L_INIT && !st.keyed) return false;      // data before any key: caller error, not a defined sequence
            return true;
        case OP_PENC: case OP_PDEC:
            if (!is_par(k)) return false;
            if (k == PM && o.code == OP_PDEC) return false;
            if (o.flags & (F_NULLA | F_NULLOUT)) return false;
            // a NULL tweak array (Mantis) has no documented meaning on a live object; on an object that must refuse the call
            // anyway (NULL, zeroed, failed init, cleaned up) the arguments are never looked at, so the call is defined: 0
            if ((o.flags & F_NULLB) && !(nobj || (st.life != L_INIT && st.life != L_RAW))) return false;
            if (nobj) return true;
            if (st.life == L_RAW) return false;
            if (st.life == L_INIT && !st.keyed) return false;
            return true;
        case OP_BENC: case OP_BDEC: case OP_BTWK:
            if (is_obj(k) || nobj) return false;
            if (o.code == OP_BTWK && k != MK) return false;
            if (o.code == OP_BDEC && k == MK) return false;
            if (o.flags & (F_NULLA | F_NULLOUT | F_NULLB)) return false;
            return st.keyed;
        }
        return false;
    }

    // ---------------------------------------------------------------- helpers
    uint8_t *place_arg(int area, const Bytes &v, uint32_t pbits) {
        int mode = pbits & 3; if (mode == 3) mode = MEM_SLAB;
        uint8_t *p = g_area[area].place(v.size(), mode, (pbits >> 2) & 63);
        if (!v.empty()) memcpy(p, v.data(), v.size());
        return p;
    }
    HeapBlock *slot_block(int s) { for (auto &b : g_heap.blocks) if (b.live && b.owner_slot == s) return &b; return nullptr; }

    void check_areas(const char *what) {
        if (!(on(CK_MEM) || on(CK_UNCHANGED))) return;
        std::string why;
        for (int a = 0; a < A_NAREAS; ++a) if (!g_area[a].verify_outside(&why)) { violate("stray-write", strf("%s: %s (%s area)", what, why.c_str(), a == A_OUT ? "output" : a == A_IN ? "input" : "key/tweak/counter")); return; }
    }

    void model_reset_stream(SlotState &st) { st.ksoff = kind_bs(st.kind); st.stream_ok = true; st.data_since_reset = false; st.stream_pos = 0; }

    // ---------------------------------------------------------------- one operation
    void step(int i) {
        cur = i;
        const Op &o = plan.ops[i];
        OpObs &ob = R.obs[i];
        if (o.slot < 0 || o.slot >= (int)S.size()) { ob.skipped = true; return; }
        SlotState &st = S[o.slot];
        int k = st.kind; unsigned bs = kind_bs(k);
        if (!defined(o, st)) { ob.skipped = true; ob.life = st.life; log.ev("skip", i); tr(strf("#%d %s  -- skipped (undefined in state %s%s)", i, op_brief(plan, o).c_str(), LIFE_NAME[st.life], st.keyed ? ",keyed" : "")); return; }
        Op chained;
        if (o.flags & F_CHAIN) {
            // a packet: the ciphertext another object produced earlier in this run is this call's input
            if (o.src < 0 || o.src >= i || R.obs[o.src].skipped || R.obs[o.src].out.size() < (size_t)o.srcoff + o.size) { ob.skipped = true; ob.life = st.life; log.ev("skip-chain", i); return; }
            chained = o; chained.a.assign(R.obs[o.src].out.begin() + o.srcoff, R.obs[o.src].out.begin() + o.srcoff + o.size);
            step_with(i, chained); return;
        }
        step_with(i, o);
    }
    void step_with(int i, const Op &o) {
        OpObs &ob = R.obs[i];
        SlotState &st = S[o.slot];
        int k = st.kind; unsigned bs = kind_bs(k);
        int exp = expect(o, st);
        void *obj = (o.flags & F_NULLOBJ) ? nullptr : st.h;
        int life_before = st.life; bool keyed_before = st.keyed; int backend_before = st.backend; unsigned ksoff_before = st.ksoff;

        // --- arguments
        g_heap.begin_op(i, 0);
        g_cpu.begin_op();
        uint8_t *pa = nullptr, *pb = nullptr, *pin = nullptr, *pout = nullptr;
        Bytes outfill;
        size_t outlen = 0;
        HeapBlock *decoy = nullptr;
        switch (o.code) {
        case OP_SETKEY: case OP_SETTKEY: case OP_SETTWEAK: case OP_SETCTR:
            pa = (o.flags & F_NULLA) ? nullptr : place_arg(A_AUX, o.a, (o.place >> 16) & 255 ? (o.place >> 16) & 255 : MEM_END_FLUSH);
            break;
        case OP_ENC: case OP_PENC: case OP_PDEC: {
            outlen = o.a.size();
            pin = place_arg(A_IN, o.a, (o.place >> 8) & 255);
            if (o.flags & F_INPLACE) pout = pin;
            else { outfill.assign(outlen, (uint8_t)(fillb ^ 0xFF)); pout = place_arg(A_OUT, outfill, o.place & 255); }
            if (k == PM) pb = (o.flags & F_NULLB) ? nullptr : place_arg(A_AUX, o.b, (o.place >> 16) & 255 ? (o.place >> 16) & 255 : MEM_END_FLUSH);
            if (o.flags & F_NULLA) pin = nullptr;
            if (o.flags & F_NULLOUT) pout = nullptr;
            break;
        }
        case OP_BENC: case OP_BDEC: case OP_BTWK: {
            outlen = bs;
            Bytes blk = o.a; blk.resize(bs, 0);
            if (o.delta != 0 || (o.flags & F_INPLACE)) {
                // overlapping input/output inside one junk slab
                int d = o.delta; if (d > (int)bs - 1) d = bs - 1; if (d < -(int)bs + 1) d = -(int)bs + 1;
                Bytes both(3 * bs, fillb);
                uint8_t *base = place_arg(A_IN, both, ((o.place >> 8) & 0xFC) | MEM_SLAB);
                pin = base + bs; memcpy(pin, blk.data(), bs); pout = pin + d;
            } else {
                pin = place_arg(A_IN, blk, (o.place >> 8) & 255);
                outfill.assign(bs, (uint8_t)(fillb ^ 0xFF)); pout = place_arg(A_OUT, outfill, o.place & 255);
            }
            if (o.code == OP_BTWK) { Bytes t = o.b; t.resize(8, 0); pb = place_arg(A_AUX, t, (o.place >> 16) & 255 ? (o.place >> 16) & 255 : MEM_END_FLUSH); }
            break;
        }
        case OP_INIT:
            if (obj) {
                switch (o.prefill) {
                case 1: memset(st.h, 0, st.hsize); break;
                case 2: memset(st.h, 0xFF, st.hsize); break;
                case 3: {
                    decoy = (HeapBlock *)nullptr;
                    void *d = g_heap.alloc(96, false, 16);
                    if (d) { memset(d, 0xD7, 96); decoy = g_heap.find_live(d); decoy->owner_slot = -2; for (size_t q = 0; q + 8 <= st.hsize; q += 8) memcpy(st.h + q, &d, 8); }
                    break;
                }
                case 4: { void *gp = g_area[A_OUT].map + 64; for (size_t q = 0; q + 8 <= st.hsize; q += 8) memcpy(st.h + q, &gp, 8); break; }
                case 5: break;
                case 6: {   // the byte image of ANOTHER live object of the same kind (a struct copy, a reused pool entry): init must not trust it
                    bool done = false;
                    for (size_t t = 0; t < S.size() && !done; ++t) if ((int)t != o.slot && S[t].kind == k && S[t].life == L_INIT) { memcpy(st.h, S[t].h, st.hsize); done = true; PROBE("init.prefill-image-of-live-object"); }
                    if (!done) { Rng j(w_heap ^ (uint64_t)i * 77); j.fill(st.h, st.hsize); for (size_t q = 0; q < st.hsize; ++q) st.h[q] |= 1; }
                    break;
                }
                default: { Rng j(w_heap ^ (uint64_t)i * 77); j.fill(st.h, st.hsize); for (size_t q = 0; q < st.hsize; ++q) st.h[q] |= 1; break; }
                }
            }
            {
                int ci = cfg.cpu_override >= 0 ? cfg.cpu_override : o.cpu;
                if (ci >= 3 && cfg.grid && ci - 3 < (int)cfg.grid->size()) g_cpu.set(&(*cfg.grid)[ci - 3]);
                else g_cpu.set(cpu_pin_model(ci < 0 ? 0 : ci > 2 ? 2 : ci));
            }
            break;
        default: break;
        }
        g_heap.begin_op(i, o.failalloc);

        // --- snapshots for "a rejected call changes nothing"
        Bytes h_before, ctx_before;
        HeapBlock *blk = is_obj(k) ? slot_block(o.slot) : nullptr;
        bool want_unchanged = (exp == 0) || (o.code == OP_CLEANUP && st.life != L_INIT);
        if (want_unchanged && (on(CK_UNCHANGED) || on(CK_FAILINIT) || on(CK_HEAP))) {
            h_before.assign(st.h, st.h + st.hsize);
            if (blk) ctx_before.assign(blk->base, blk->base + blk->size);
        }
        Bytes in_copy; if (pin && !(o.flags & F_INPLACE) && o.delta == 0) in_copy.assign(pin, pin + (o.code >= OP_BENC ? bs : o.a.size()));

        // --- the call
        int ret = -1; bool ok;
        uint64_t stackpat = w_stack ^ (uint64_t)(i + 1) * 0x9E3779B97F4A7C15ULL;
        ++R.lib_calls;
        g_trace_op = i; g_trace_gate = 1;
        switch (o.code) {
        case OP_INIT:
            if ((o.flags & F_JUNKREGS) || cfg.use_junk_regs) ok = GUARDED_CALL_DIRTY(stackpat, ret = (int)call_with_junk_regs(lib_init_fn(k), obj, stackpat));
            else ok = GUARDED_CALL_DIRTY(stackpat, ret = lib_init(k, obj));
            break;
        case OP_CLEANUP: {
            // cleanup of an object that is not live (zeroed, failed init, already cleaned up) "does nothing": for the duration of
            // the call its storage is read-only, so even a store of the value that is already there shows (an inert object may
            // sit in a constant, or be torn down by several threads)
            bool inert = obj && st.life != L_INIT && on(CK_HEAP);
            if (inert) mprotect(g_handles.slot_page(o.slot), 8192, PROT_READ);
            ok = GUARDED_CALL_DIRTY(stackpat, lib_cleanup(k, obj));
            if (inert) mprotect(g_handles.slot_page(o.slot), 8192, PROT_READ | PROT_WRITE);
            if (inert && !ok && g_crash.addr >= (uintptr_t)st.h && g_crash.addr < (uintptr_t)st.h + st.hsize) {
                ob.crashed = true; log.ev("crash", i, g_crash.sig);
                violate("cleanup-wrote-inert-object", strf("%s: cleanup of an object that is not live stored into it (offset %zu of the handle); it has to do nothing", op_brief(plan, o).c_str(), (size_t)(g_crash.addr - (uintptr_t)st.h)));
                return;
            }
            break;
        }
        case OP_ZERO: memset(st.h, 0, st.hsize); ok = true; break;
        case OP_SETKEY: ok = GUARDED_CALL_DIRTY(stackpat, ret = lib_setkey(k, obj, pa, o.size, o.rounds, o.mode)); break;
        case OP_SETTKEY: ok = GUARDED_CALL_DIRTY(stackpat, ret = lib_settkey(k, obj, pa, o.size)); break;
        case OP_SETTWEAK: ok = GUARDED_CALL_DIRTY(stackpat, ret = lib_settweak(k, obj, pa, o.size)); break;
        case OP_SETCTR: ok = GUARDED_CALL_DIRTY(stackpat, ret = lib_setctr(k, obj, pa, o.size)); break;
        case OP_ENC: ok = GUARDED_CALL_DIRTY(stackpat, ret = lib_enc(k, pout, pin, o.size, obj)); break;
        case OP_PENC: ok = GUARDED_CALL_DIRTY(stackpat, ret = lib_par(k, false, pout, pin, pb, o.size, obj)); break;
        case OP_PDEC: ok = GUARDED_CALL_DIRTY(stackpat, ret = lib_par(k, true, pout, pin, pb, o.size, obj)); break;
        case OP_BENC: case OP_BDEC: case OP_BTWK: ok = GUARDED_CALL_DIRTY(stackpat, lib_block(k, o.code, pout, pin, pb, obj)); break;
        case OP_SWAP: ok = GUARDED_CALL_DIRTY(stackpat, lib_swap(k, obj)); break;
        default: ok = true; break;
        }
        g_trace_gate = 0;
        for (auto &t : g_cpu.traps) log.ev("cpu", t.kind, t.leaf, t.subleaf);
        ob.ret = ret;
        if (!ok) {
            ob.crashed = true;
            log.ev("crash", i, g_crash.sig);
            if (g_crash.sig == SIGALRM) violate("no-progress", strf("%s: %s (stopped at pc+0x%lx)", op_brief(plan, o).c_str(), g_crash.where, (unsigned long)(g_crash.pc - (uintptr_t)&__executable_start)));
            else violate("crash", strf("%s faulted inside the library: signal %d touching %s%s", op_brief(plan, o).c_str(), g_crash.sig, classify_addr((void *)g_crash.addr).c_str(), g_crash.where[0] ? strf(" (%s)", g_crash.where).c_str() : ""));
            tr(strf("#%d %s  -> CRASH", i, op_brief(plan, o).c_str()));
            return;
        }
        if (ret == -99) { ob.skipped = true; ob.ret = -2; return; }

        // --- outputs
        if (pout && outlen && ret != 0) ob.out.assign(pout, pout + outlen);
        check_areas(op_brief(plan, o).c_str()); if (stop) return;
        if (!in_copy.empty() && on(CK_MEM) && memcmp(in_copy.data(), pin, in_copy.size()) != 0) { violate("input-modified", strf("%s modified its input buffer", op_brief(plan, o).c_str())); return; }

        // --- INIT bookkeeping
        if (o.code == OP_INIT) {
            if (exp == -2) exp = g_heap.failed_in_op > 0 ? 0 : 1;
            for (auto &b : g_heap.blocks) if (b.alloc_op == i && b.owner_slot == -1) b.owner_slot = (ret != 0 && obj) ? o.slot : -3;
            if (obj) {
                if (ret != 0) {
                    st.life = L_INIT; st.backend = lib_backend(k, st.h); st.keyed = false; st.tweaked = false;
                    memset(st.ctr, 0, 16); memset(st.tweak, 0, 16); model_reset_stream(st);
                    ob.backend = st.backend;
                    {   // public handle fields after a successful init: back-end identity, context placement, advertised size
                        ObjHandleView *hv = (ObjHandleView *)st.h; uint64_t off = g_heap.in_arena(hv->ctx) ? (uint64_t)((uint8_t *)hv->ctx - g_heap.arena) : ~0ULL; uint64_t ps = is_par(k) ? lib_parallel_size(k, st.h) : 0;
                        ob.snap.resize(20); int be32 = st.backend; memcpy(&ob.snap[0], &be32, 4); memcpy(&ob.snap[4], &off, 8); memcpy(&ob.snap[12], &ps, 8);
                        if (is_par(k) && on(CK_OUT) && (ps == 0 || ps % bs != 0)) { violate("parallel-size", strf("%s: advertised parallel size %llu is not a positive multiple of the block size %u", op_brief(plan, o).c_str(), (unsigned long long)ps, bs)); return; }
                    }
                    if (on(CK_SELECT)) check_selection(st, o);
                    if (stop) return;
                } else {
                    st.life = L_FAILED; st.keyed = false;
                    if (on(CK_FAILINIT)) {
                        for (auto &b : g_heap.blocks) if (b.alloc_op == i && b.live && b.owner_slot != -2) { violate("failed-init-leak", strf("%s returned 0 but block #%d (%zu bytes) it allocated is still live", op_brief(plan, o).c_str(), b.id, b.size)); return; }
                    }
                }
            }
            if (decoy) {
                bool dead = !decoy->live; bool dirty = false;
                if (!dead) for (size_t q = 0; q < 96; ++q) if (decoy->base[q] != 0xD7) dirty = true;
                if ((dead || dirty) && (on(CK_FAILINIT) || on(CK_HEAP))) { violate("foreign-block", strf("%s %s a heap block that belongs to the caller (its handle merely contained that pointer before the call)", op_brief(plan, o).c_str(), dead ? "freed" : "wrote into")); return; }
                if (!dead) { decoy->live = false; }   // the simulator retires its decoy silently
            }
            log.ev("init", i, ret, st.backend);
        }

        // --- return value
        if (exp >= 0 && (ret != 0) != (exp != 0)) {
            if (on(CK_RET)) violate(exp ? "valid-call-rejected" : "invalid-call-accepted", strf("%s returned %d, expected %s (object state: %s%s)", op_brief(plan, o).c_str(), ret, exp ? "1" : "0", LIFE_NAME[life_before], keyed_before ? ", keyed" : ""));
            else { PROBE("desync.ret"); stop = true; }
            tr(strf("#%d %s  -> %d (expected %d)", i, op_brief(plan, o).c_str(), ret, exp));
            return;
        }

        // --- rejected call: nothing may have changed
        if (want_unchanged && !h_before.empty() && o.code != OP_INIT) {
            if (on(CK_UNCHANGED) || on(CK_FAILINIT) || on(CK_HEAP)) {
                if (obj && memcmp(h_before.data(), st.h, st.hsize) != 0 && !(o.code == OP_CLEANUP && life_before == L_FAILED)   /* cleanup after a failed init may tidy the handle: C16 only demands that it is safe */) { violate("rejected-call-changed-object", strf("%s was rejected (or is a no-op) but changed the caller's object", op_brief(plan, o).c_str())); return; }
                if (blk && blk->live && !ctx_before.empty() && memcmp(ctx_before.data(), blk->base, blk->size) != 0) { violate("rejected-call-changed-context", strf("%s was rejected but changed the object's internal state", op_brief(plan, o).c_str())); return; }
                if (blk && !blk->live) { violate("rejected-call-freed-context", strf("%s was rejected but released the object's memory", op_brief(plan, o).c_str())); return; }
                if (g_heap.frees_in_op > 0 && (on(CK_HEAP) || on(CK_FAILINIT))) { violate("unexpected-free", strf("%s called free() although the object holds nothing (state %s)", op_brief(plan, o).c_str(), LIFE_NAME[life_before])); return; }
            }
            if (pout && !(o.flags & F_INPLACE) && on(CK_UNCHANGED) && exp == 0) {
                for (size_t q = 0; q < outlen; ++q) if (pout[q] != (uint8_t)(fillb ^ 0xFF)) { violate("rejected-call-wrote-output", strf("%s was rejected but wrote to the output buffer", op_brief(plan, o).c_str())); return; }
            }
        }

        // --- model transition and output oracle
        switch (o.code) {
        case OP_CLEANUP:
            if (obj && st.life == L_INIT) {
                st.life = L_CLEANED; st.keyed = false;
                if (on(CK_HEAP)) {
                    if (blk && blk->live) { violate("cleanup-did-not-release", strf("%s left block #%d allocated by the matching init live", op_brief(plan, o).c_str(), blk->id)); return; }
                }
                // (Whether a stale pointer value is left in the handle is not checked: the property only demands that it is
                //  never used again, and any use or second free of it faults in SimHeap.)
            }
            break;
        case OP_ZERO: st.life = L_ZEROED; st.keyed = false; break;
        case OP_SETKEY: case OP_SETTKEY:
            if (ret != 0 && obj && is_ctr(k) && st.data_since_reset) {
                unsigned batch = ctr_batch_bytes(k, st.backend); unsigned inb = (unsigned)(st.stream_pos % batch);
                if (inb == 0) PROBE("rekey.at-batch-boundary"); else if (inb % bs == 0) PROBE("rekey.inside-batch.whole-blocks-consumed"); else PROBE("rekey.inside-batch.inside-a-block");
            }
            if (ret != 0 && obj && !is_mantis(k) && o.size % bs != 0) PROBE("key.partial-length");
            if (ret != 0 && obj) {
                st.keyed = true; st.tweaked = (o.code == OP_SETTKEY);
                st.key = o.a; st.keysize = o.size; st.rounds = o.rounds; st.mode = (k == MCTR) ? 1 : o.mode;
                memset(st.tweak, 0, 16); st.nswaps = 0;
                if (is_ctr(k)) { if (st.data_since_reset) st.stream_ok = false; st.ksoff = bs; }
                rebuild_ref(st); if (stop) return;
            }
            break;
        case OP_SETTWEAK:
            if (ret != 0 && obj && is_ctr(k) && !is_mantis(k) && !(st.keyed && st.tweaked)) { st.stream_ok = false; st.ksoff = bs; PROBE("odd.set_tweak-on-untweaked-ctr"); break; }
            if (ret != 0 && obj && k == MCTR && !st.keyed) { PROBE("odd.set_tweak-before-key"); break; }
            if (ret != 0 && obj) {
                if (!pa) PROBE("tweak.null"); else if (o.size < bs) PROBE("tweak.short");
                if (pa && memcmp(st.tweak, o.a.data(), std::min<size_t>(o.size, o.a.size())) == 0 && o.size == bs) PROBE("tweak.same-value-again");
                if (is_ctr(k) && st.data_since_reset) { unsigned batch = ctr_batch_bytes(k, st.backend); if (st.stream_pos % batch) PROBE("tweak-change.inside-batch"); else PROBE("tweak-change.at-batch-boundary"); }
                memset(st.tweak, 0, 16);
                if (pa) memcpy(st.tweak, o.a.data(), o.size < o.a.size() ? o.size : o.a.size());
                if (is_ctr(k)) { if (st.data_since_reset) st.stream_ok = false; st.ksoff = bs; }
                rebuild_ref(st); if (stop) return;
            }
            break;
        case OP_SETCTR:
            if (ret != 0 && obj) {
                if (!pa) PROBE("counter.null"); else if (o.size == 0) PROBE("counter.length-0"); else if (o.size < bs) PROBE("counter.short");
                if (st.ksoff < bs) PROBE("counter.set-with-keystream-left");
                memset(st.ctr, 0, 16);
                if (pa && o.size) memcpy(st.ctr + bs - o.size, o.a.data(), o.size);
                model_reset_stream(st);
            }
            break;
        case OP_SWAP:
            if (obj && st.keyed) { st.mode = !st.mode; ++st.nswaps; rebuild_ref(st); if (stop) return; }
            break;
        case OP_ENC:
            if (ret != 0 && obj && !st.keyed) break;      // allow_odd: no model, the hosts are compared with each other
            if (ret != 0 && obj) {
                {
                    unsigned batch = ctr_batch_bytes(k, st.backend); uint64_t endpos = st.stream_pos + o.a.size();
                    if (o.a.empty()) { if (st.ksoff >= bs) PROBE("frag.zero-length.buffer-empty"); else PROBE("frag.zero-length.buffer-half-used"); }
                    else if (endpos % batch == 0) PROBE("frag.ends-on-batch-boundary"); else if (endpos % batch == batch - 1) PROBE("frag.ends-one-before-batch-boundary"); else if (endpos % batch == 1) PROBE("frag.ends-one-after-batch-boundary");
                    if (o.a.size() > batch) PROBE("frag.longer-than-a-batch");
                    if (o.flags & F_INPLACE) PROBE("frag.in-place");
                    if (batch > bs && !o.a.empty()) {   // does the counter wrap to zero somewhere inside the lanes of one batch?
                        uint8_t c2[16]; memcpy(c2, st.ctr, 16); unsigned ahead = (unsigned)((batch - (st.stream_pos % batch)) / bs);
                        for (unsigned q = 0; q < ahead && q < 8; ++q) { bool allff = true; for (unsigned z = 0; z < bs; ++z) allff &= c2[z] == 0xFF; if (allff) { PROBE("ctr.wrap-inside-simd-batch"); break; } be_add(c2, bs, 1); }
                    }
                }
                Bytes expb(o.a.size());
                bool okm = model_call([&] {
                    for (size_t q = 0; q < o.a.size(); ++q) {
                        if (st.ksoff >= bs) {
                            ref_block(st, st.ctr, st.ks, false);
                            int carry = 0; for (int c = bs - 1; c >= 0 && st.ctr[c] == 0xFF; --c) ++carry;
                            if (carry >= 2) PROBE("ctr.carry>=2"); if (carry >= (int)bs / 2) PROBE("ctr.carry>=half"); if (carry == (int)bs) PROBE("ctr.wrap");
                            be_add(st.ctr, bs, 1); st.ksoff = 0;
                        }
                        expb[q] = o.a[q] ^ st.ks[st.ksoff++];
                    }
                });
                if (!okm) return;
                st.data_since_reset = st.data_since_reset || !o.a.empty();
                st.stream_pos += o.a.size();
                if (on(CK_OUT) && st.stream_ok && expb != ob.out) {
                    size_t q = 0; while (q < expb.size() && expb[q] == ob.out[q]) ++q;
                    violate("stream-mismatch", strf("%s on the %s back end: output differs from input xor E(counter...) at byte %zu of this call (stream byte %llu); got %s expected %s",
                                                    op_brief(plan, o).c_str(), st.backend == 2 ? "256-bit" : st.backend == 1 ? "128-bit" : "generic", q,
                                                    (unsigned long long)(st.stream_pos - o.a.size() + q), hex(ob.out.data() + q, std::min<size_t>(8, expb.size() - q)).c_str(), hex(expb.data() + q, std::min<size_t>(8, expb.size() - q)).c_str()));
                    return;
                }
                if (!st.stream_ok) PROBE("ctr.enc-undefined-stream");
                if ((o.flags & F_CHAIN) && o.expect >= 0 && o.expect < i && on(CK_OUT)) {
                    const Bytes &whole = plan.ops[o.expect].a;
                    PROBE("packet.fragment-delivered");
                    Bytes plain; if (whole.size() >= (size_t)o.srcoff + o.size) plain.assign(whole.begin() + o.srcoff, whole.begin() + o.srcoff + o.size);
                    if (plain.size() == ob.out.size() && plain != ob.out) {
                        size_t q = 0; while (q < plain.size() && plain[q] == ob.out[q]) ++q;
                        violate("packet-not-restored", strf("%s: the packet encrypted by operation #%d on another object does not decrypt to its plaintext (first wrong byte %zu)", op_brief(plan, o).c_str(), o.expect, q));
                        return;
                    }
                }
            }
            break;
        case OP_PENC: case OP_PDEC:
            if (ret != 0 && obj && !st.keyed) break;
            if (ret != 0 && obj) {
                Bytes expb(o.a.size());
                bool dec = o.code == OP_PDEC;
                bool okm = model_call([&] { for (size_t q = 0; q + bs <= o.a.size(); q += bs) ref_block(st, o.a.data() + q, expb.data() + q, dec, k == PM ? o.b.data() + q : nullptr); });
                if (!okm) return;
                if (on(CK_OUT) && expb != ob.out) {
                    size_t q = 0; while (q < expb.size() && expb[q] == ob.out[q]) ++q;
                    violate("parallel-mismatch", strf("%s on the %s back end: block %zu differs from the single-block function", op_brief(plan, o).c_str(), st.backend == 2 ? "256-bit" : st.backend == 1 ? "128-bit" : "generic", q / bs));
                    return;
                }
                if (on(CK_RTRIP) && !o.a.empty()) {
                    // the inverse direction through the same object must restore the input
                    Bytes back(o.a.size());
                    uint8_t *p2 = place_arg(A_IN, ob.out, (o.place >> 8) & 255);
                    Bytes zf(o.a.size(), 0); uint8_t *o2 = place_arg(A_OUT, zf, o.place & 255);
                    bool ok2;
                    if (k == PM) {
                        MantisParallelECB_t *pm = (MantisParallelECB_t *)st.h;
                        ok2 = GUARDED_CALL((mantis_parallel_ecb_swap_modes(pm), mantis_parallel_ecb_crypt(o2, p2, pb, o.size, pm), mantis_parallel_ecb_swap_modes(pm)));
                    } else ok2 = GUARDED_CALL(lib_par(k, !dec, o2, p2, nullptr, o.size, st.h));
                    if (!ok2) { violate("crash", "inverse parallel call crashed"); return; }
                    back.assign(o2, o2 + o.a.size());
                    if (back != o.a) { violate("parallel-roundtrip", strf("%s followed by the inverse direction through the same object does not restore the data", op_brief(plan, o).c_str())); return; }
                    PROBE("rtrip.parallel");
                }
            }
            break;
        case OP_BENC: case OP_BDEC: case OP_BTWK: {
            uint8_t e[16]; Bytes blkin = o.a; blkin.resize(bs, 0); Bytes tw = o.b; tw.resize(8, 0);
            bool dec = o.code == OP_BDEC;
            if (!model_call([&] { ref_block(st, blkin.data(), e, dec, o.code == OP_BTWK ? tw.data() : nullptr); })) return;
            if ((on(CK_OUT) || on(CK_FRESH) || on(CK_PAD)) && memcmp(e, ob.out.data(), bs) != 0) {
                violate("block-mismatch", strf("%s: got %s, reference %s", op_brief(plan, o).c_str(), hex(ob.out).c_str(), hex(e, bs).c_str()));
                return;
            }
            if (on(CK_RTRIP)) {
                uint8_t back[16];
                bool ok2;
                if (k == MK) {
                    MantisKey_t inv; memcpy(&inv, st.h, sizeof inv);
                    ok2 = GUARDED_CALL((mantis_swap_modes(&inv), (o.code == OP_BTWK ? mantis_ecb_crypt_tweaked(back, ob.out.data(), tw.data(), &inv) : mantis_ecb_crypt(back, ob.out.data(), &inv))));
                } else ok2 = GUARDED_CALL(lib_block(k, dec ? OP_BENC : OP_BDEC, back, ob.out.data(), nullptr, st.h));
                if (!ok2) { violate("crash", "inverse single-block call crashed"); return; }
                if (memcmp(back, blkin.data(), bs) != 0) { violate("block-roundtrip", strf("%s followed by the inverse operation does not restore the block", op_brief(plan, o).c_str())); return; }
                PROBE("rtrip.block");
            }
            break;
        }
        default: break;
        }
        if (stop) return;

        // --- key-schedule image against "keyed afresh from the model"
        if (!is_obj(k) && st.keyed && obj && (o.code == OP_SETKEY || o.code == OP_SETTKEY || o.code == OP_SETTWEAK || o.code == OP_SWAP)) {
            ob.snap = obj_canon(st);
            if (on(CK_OUT) || on(CK_PAD) || on(CK_FRESH) || on(CK_MSCHED)) {
                Bytes r = ref_canon(st);
                if (r != ob.snap) {
                    size_t q = 0; while (q < r.size() && q < ob.snap.size() && r[q] == ob.snap[q]) ++q;
                    const char *inv = o.code == OP_SETTWEAK ? "tweak-history" : o.code == OP_SWAP ? "mantis-swap" : "schedule-mismatch";
                    violate(inv, strf("%s: key schedule differs from one keyed afresh%s (first difference at image byte %zu)", op_brief(plan, o).c_str(), on(CK_PAD) ? " with the zero-padded primary-size key" : " from the same key and latest tweak", q));
                    return;
                }
            }
        }
        // PM: parallel swap must behave like the scalar swap (checked through outputs later)

        // --- heap monitors
        if (on(CK_HEAP) && !g_heap.issues.empty()) { violate("heap-misuse", g_heap.issues[0].what); g_heap.issues.clear(); return; }
        g_heap.issues.clear();
        if (on(CK_WIPE)) for (auto &b : g_heap.blocks) if (b.free_op == i && b.owner_slot != -2 && !b.zero_at_free) {
            violate("not-wiped", strf("%s released block #%d (%zu bytes, %s back end) with non-zero content at offset %zu", op_brief(plan, o).c_str(), b.id, b.size, backend_before == 2 ? "256-bit" : backend_before == 1 ? "128-bit" : "generic", b.first_nonzero_at_free)); return; }
        // cleanup of a live object returned: nothing the object owned may survive it with content (a context that is neither
        // erased nor released is key-dependent state left behind all the same)
        if (on(CK_WIPE) && o.code == OP_CLEANUP && obj && life_before == L_INIT) for (auto &b : g_heap.blocks) if (b.live && b.owner_slot == o.slot) {
            size_t q = 0; while (q < b.size && !b.base[q]) ++q;
            if (q < b.size) { violate("not-wiped", strf("%s returned but block #%d (%zu bytes, %s back end) that the object owned is still allocated with non-zero content at offset %zu: neither erased nor released", op_brief(plan, o).c_str(), b.id, b.size, backend_before == 2 ? "256-bit" : backend_before == 1 ? "128-bit" : "generic", q)); return; }
        }
        g_heap.scan_nonzero();
        if (o.code == OP_CLEANUP && obj && life_before == L_INIT && (on(CK_WIPE) || on(CK_HEAP))) {
            static const char *BE[] = {"generic", "vec128", "vec256"};
            g_probes.hit(strf("cleanup.%s.%s.%s", KIND_NAME[k], BE[backend_before < 0 ? 0 : backend_before > 2 ? 2 : backend_before], keyed_before ? (ksoff_before < bs ? "mid-stream" : "keyed") : "unkeyed"));
        }
        if (exp == 0 && !(o.flags & F_NULLOBJ) && on(CK_UNCHANGED)) g_probes.hit(strf("rejected.%s.%s.%s", OP_NAME[o.code], is_obj(k) ? LIFE_NAME[life_before] : "schedule", is_obj(k) && life_before == L_INIT ? (keyed_before ? (is_ctr(k) && ksoff_before < bs ? "mid-stream" : "keyed") : "fresh") : "-"));
        if (exp == 0 && (o.flags & F_NULLOBJ) && on(CK_UNCHANGED)) g_probes.hit(strf("rejected.%s.null-object", OP_NAME[o.code]));
        if (o.code == OP_INIT && o.failalloc && on(CK_FAILINIT)) g_probes.hit(strf("failinit.%s.prefill%d.%s", KIND_NAME[k], o.prefill, ret == 0 ? "failed" : "no-fault-fired"));

        ob.life = st.life;
        // --- log + coverage
        log.ev("op", (uint64_t)i << 8 | o.code, (uint64_t)(uint32_t)ret, ob.out.empty() ? 0 : hash_bytes(ob.out.data(), ob.out.size()));
        if (!ob.snap.empty()) log.evb("snap", ob.snap.data(), ob.snap.size());
        {
            unsigned batch = is_ctr(k) ? ctr_batch_bytes(k, backend_before) : 0;
            unsigned offc = batch ? (ksoff_before >= bs ? 0 : 1) : 0;
            unsigned szc = o.size == 0 ? 0 : o.size < bs ? 1 : o.size == bs ? 2 : o.size % bs ? 3 : 4;
            if (o.code == OP_PENC || o.code == OP_PDEC) szc = 8 + std::min<unsigned>(o.size / bs, 63);                 // parallel: the block count itself
            if (o.code == OP_ENC && batch) szc |= ((st.stream_pos % batch) == 0 ? 16u : 0u) | ((o.flags & F_INPLACE) ? 32u : 0u);
            if (o.code == OP_SWAP) szc = 64 + (unsigned)(st.nswaps & 3);
            if (o.code == OP_SETTWEAK || o.code == OP_SETCTR) szc = 128 + ((o.flags & F_NULLA) ? 0u : o.size == 0 ? 1u : o.size < bs ? 2u : o.size == bs ? 3u : 4u);
            if (o.code == OP_SETKEY || o.code == OP_SETTKEY) szc = 160 + (o.size < bs ? 0u : o.size > 3 * bs ? 7u : (o.size % bs == 0 ? o.size / bs : 3 + o.size / bs));
            uint64_t h = hash_comb(hash_comb(hash_comb((uint64_t)k << 8 | o.code, (uint64_t)life_before << 8 | keyed_before << 4 | (backend_before & 15)), (uint64_t)(exp & 3) << 16 | offc << 8 | szc), (uint64_t)(o.flags & 15) << 8 | (o.failalloc ? 1 : 0) | (o.code == OP_INIT ? (uint64_t)(o.cpu + 1) << 16 | (uint64_t)o.prefill << 12 : 0));
            g_cover.add(h, true);
        }
        if (cfg.trace) tr(strf("#%d %s  -> %d%s%s", i, op_brief(plan, o).c_str(), ret, ob.out.empty() ? "" : (" out=" + hex(ob.out.data(), std::min<size_t>(ob.out.size(), 24)) + (ob.out.size() > 24 ? ".." : "")).c_str(), is_obj(k) ? strf("  [%s,be=%d]", LIFE_NAME[st.life], st.backend).c_str() : ""));
    }

    void check_selection(SlotState &st, const Op &o) {
        const CpuModel &m = *g_cpu.model;
        int want = 0;
        if (SimCPU::want128(m) && lib_compiled_in(1)) want = 1;
        if (st.kind == CTR128 || st.kind == P128) if (SimCPU::want256(m) && lib_compiled_in(2)) want = 2;     // "widest back end that is both compiled in and supported"
        if (g_cpu.traps.empty()) { PROBE("cpu.seam-bypassed"); return; }
        if (g_cpu.illegal_xgetbv) { violate("illegal-xgetbv", strf("%s executed XGETBV on CPU model %s, which does not report OSXSAVE (the instruction would fault there)", op_brief(plan, o).c_str(), m.name)); return; }
        if (st.backend < 0) { PROBE("cpu.backend-unknown"); return; }
        if (st.backend != want) {
            violate(st.backend > want ? "selection-exceeds-cpu" : "selection-too-narrow",
                    strf("%s on CPU model %s selected the %s back end, expected %s", op_brief(plan, o).c_str(), m.name,
                         st.backend == 2 ? "256-bit" : st.backend == 1 ? "128-bit" : "generic", want == 2 ? "256-bit" : want == 1 ? "128-bit" : "generic"));
            return;
        }
        if (is_par(st.kind)) {
            size_t ps = lib_parallel_size(st.kind, st.h); size_t bs = kind_bs(st.kind);
            size_t wantps = st.kind == P128 ? (want == 2 ? 128 : 64) : 64;
            if (ps == 0 || ps % bs != 0) { violate("parallel-size", strf("advertised parallel size %zu is not a positive multiple of the block size", ps)); return; }
            if (st.backend > 0 && ps != wantps) { violate("parallel-size", strf("advertised parallel size %zu does not match the selected back end (expected %zu)", ps, wantps)); return; }
        }
    }

    void run() {
        log.reset(cfg.trace);
        uint64_t w = cfg.world;
        w_stack = mix64(w ^ 3); w_heap = mix64(w ^ 1); fillb = (uint8_t)(mix64(w ^ 2) | 1);
        if (fillb == 0xFF) fillb = 0x7F;
        g_heap.begin_run(w_heap, Rng(mix64(plan.ops.size() * 1315423911ULL + plan.slots.size()) ^ 0xABCD), &log);
        g_heap.forced_placement = cfg.heap_place;
        for (int a = 0; a < A_NAREAS; ++a) g_area[a].begin_run(fillb);
        S.resize(plan.slots.size());
        for (size_t s = 0; s < S.size() && s < (size_t)HandleArena::NSLOTS; ++s) {
            S[s].kind = plan.slots[s]; S[s].hsize = handle_size(S[s].kind); S[s].h = g_handles.place((int)s, S[s].hsize);
            Rng j(w_heap ^ (s + 1) * 0x51ED); j.fill(g_handles.slot_page((int)s), 8192);
            memset(S[s].tweak, 0, 16); memset(S[s].ctr, 0, 16); S[s].ksoff = kind_bs(S[s].kind);
        }
        R.obs.assign(plan.ops.size(), OpObs());
        for (size_t i = 0; i < plan.ops.size() && !stop; ++i) step((int)i);
        // epilogue: balance every successful init, then the heap must be empty
        if (!stop && cfg.epilogue_cleanup) {
            for (size_t s = 0; s < S.size() && !stop; ++s) if (S[s].life == L_INIT) {
                cur = (int)plan.ops.size();
                int freeop = cur;
                g_heap.begin_op(cur, 0);
                int be = S[s].backend;
                bool ok = GUARDED_CALL(lib_cleanup(S[s].kind, S[s].h));
                if (!ok) { violate("crash", strf("final cleanup of %s#%zu crashed", KIND_NAME[S[s].kind], s)); break; }
                S[s].life = L_CLEANED;
                for (int q = (int)plan.ops.size() - 1; q >= 0; --q) if (plan.ops[q].slot == (int)s) { cur = q; break; }   // report against the last operation on this object
                if (on(CK_WIPE)) for (auto &b : g_heap.blocks) if (b.free_op == freeop && b.owner_slot == (int)s && !b.zero_at_free) { violate("not-wiped", strf("final cleanup of %s#%zu (%s back end) released block #%d (%zu bytes) with non-zero content at offset %zu", KIND_NAME[S[s].kind], s, be == 2 ? "256-bit" : be == 1 ? "128-bit" : "generic", b.id, b.size, b.first_nonzero_at_free)); break; }
                if (on(CK_WIPE) && !stop) for (auto &b : g_heap.blocks) if (b.live && b.owner_slot == (int)s) {
                    size_t q = 0; while (q < b.size && !b.base[q]) ++q;
                    if (q < b.size) { violate("not-wiped", strf("final cleanup of %s#%zu returned but block #%d (%zu bytes) that the object owned is still allocated with non-zero content at offset %zu: neither erased nor released", KIND_NAME[S[s].kind], s, b.id, b.size, q)); break; }
                }
                if (on(CK_HEAP) && !g_heap.issues.empty()) { violate("heap-misuse", g_heap.issues[0].what); break; }
            }
            if (!stop && on(CK_HEAP)) {
                for (auto &b : g_heap.blocks) if (b.live && b.owner_slot != -2) { ++R.leaked_blocks; }
                if (R.leaked_blocks) { cur = (int)plan.ops.size(); auto it = std::find_if(g_heap.blocks.begin(), g_heap.blocks.end(), [](const HeapBlock &b) { return b.live && b.owner_slot != -2; }); violate("leak", strf("%d block(s) still allocated after every object was cleaned up; first: block #%d (%zu bytes) allocated in op %d", R.leaked_blocks, it->id, it->size, it->alloc_op)); }
            }
        }
        if (!stop && (on(CK_MEM) || on(CK_UNCHANGED))) {
            std::string why;
            for (int a = 0; a < A_NAREAS; ++a) { uint8_t *c = g_area[a].cur; size_t l = g_area[a].curlen; (void)c; (void)l; if (!g_area[a].verify_all(&why)) { cur = (int)plan.ops.size(); violate("stray-write", why); break; } }
        }
        for (auto &b : g_heap.blocks) if (b.owner_slot >= 0 && !b.live && b.ever_nonzero) PROBE("heap.freed-block-had-data");
        g_heap.end_run();
        g_cpu.set(nullptr);
        R.fingerprint = log.fp; R.events = log.nevents;
        if (cfg.trace) for (auto &l : log.lines) (void)l;
    }
};

static void exec_tramp(void *p) { ((Exec *)p)->run(); }
}
RunResult execute(const Plan &plan, const ExecCfg &cfg) {
    RunResult R;
    Exec e(plan, cfg, R);
    run_on_sim_stack(exec_tramp, &e);
    return R;
}
