// Hooks fed by the compiler-inserted call-backs in the tsanhook flavour of the library.
#pragma once
#include <cstdint>
#include <cstddef>
struct TsanHooks {
    void (*mem)(void *addr, unsigned size, int is_write, void *pc) = nullptr;
    void (*pc)(void *pc) = nullptr;
    void (*func)(void *pc, int enter) = nullptr;
    void (*atomic)(void *addr, unsigned size, int is_write, void *pc) = nullptr;   // C11 atomics used by library code
};
extern TsanHooks g_tsan;
