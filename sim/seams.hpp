// The seams of DESIGN.md section 2: allocator, CPU, stack dirt, caller memory, crash catcher.
#pragma once
#include "core.hpp"
#include <csetjmp>
#include <csignal>

// ------------------------------------------------------------------ SimHeap
struct HeapBlock {
    int id = 0;
    uint8_t *base = nullptr;   // pointer handed to the library
    size_t size = 0;           // bytes requested
    int cell = 0;
    bool live = false;
    bool zeroed_contract = false;   // came from calloc
    bool zero_at_free = false;      // C17: every byte zero at the instant of free
    size_t first_nonzero_at_free = 0;
    bool ever_nonzero = false;      // measured: block held non-zero data at some point
    int alloc_op = -1, free_op = -1;
    int owner_slot = -1;            // set by the interpreter
    int placement = 0;
};

struct HeapIssue { std::string what; int op; int block; };

enum { PLACE_A16 = 0, PLACE_A32 = 1, PLACE_A64 = 2, PLACE_FLUSH = 3, PLACE_NKINDS = 4 };

struct SimHeap {
    static const size_t CELL_DATA = 8192, CELL_GUARD = 4096, CELL = CELL_DATA + CELL_GUARD;
    static const int NCELLS = 160;
    // requests too big for a cell (a keystream or scratch buffer of tens of kilobytes) get one of a few big cells
    static const size_t BIG_DATA = 1u << 20, BIG = BIG_DATA + CELL_GUARD;
    static const int NBIG = 6;
    int big_used = 0;
    uint8_t *cell_base(int cell) const { return cell < NCELLS ? arena + (size_t)cell * CELL : arena + (size_t)NCELLS * CELL + (size_t)(cell - NCELLS) * BIG; }
    size_t cell_data(int cell) const { return cell < NCELLS ? CELL_DATA : BIG_DATA; }
    uint8_t *arena = nullptr;
    bool active = false;          // when false the simheap_* symbols pass through to libc
    std::vector<HeapBlock> blocks;
    std::vector<HeapIssue> issues;
    int cells_used = 0;
    int cur_op = -1;
    int fail_at = 0;              // k > 0: the k-th allocation of the current op fails; k < 0: the |k|-th and every later one; 0: none
    int allocs_in_op = 0;
    int frees_in_op = 0;
    int failed_in_op = 0;
    uint64_t junk_seed = 0;       // world-dependent junk pattern
    int forced_placement = -1;    // -1: drawn from place_rng
    Rng place_rng;
    uint64_t n_alloc = 0, n_free = 0, n_failed = 0;
    EventLog *log = nullptr;

    void init_arena();
    void begin_run(uint64_t junk, Rng placement, EventLog *lg);
    void end_run();               // re-opens every cell
    void begin_op(int op, int fail_at_k);
    void *alloc(size_t n, bool zero, size_t align);
    void release(void *p);
    HeapBlock *find_live(const void *p);   // block containing p (live)
    HeapBlock *find_any(const void *p);    // block (live or freed) containing p
    void scan_nonzero();          // update ever_nonzero of live blocks
    int live_count() const;
    bool in_arena(const void *p) const { return arena && (const uint8_t *)p >= arena && (const uint8_t *)p < arena + (size_t)NCELLS * CELL + (size_t)NBIG * BIG; }
};
extern SimHeap g_heap;

// ------------------------------------------------------------------ SimCPU
struct CpuModel {
    const char *name;
    uint32_t maxleaf;          // CPUID.0:EAX
    bool sse2;                 // CPUID.1:EDX[26]
    bool avx;                  // CPUID.1:ECX[28]
    bool osxsave;              // CPUID.1:ECX[27]
    bool avx2;                 // CPUID.(7,0):EBX[5]
    uint32_t l7_other_ebx;     // EBX of leaf 7, sub-leaf != 0 (0 on real parts; junk to model future parts)
    bool intel_oor;            // out-of-range basic leaf returns data of the highest basic leaf (Intel) / zeros (AMD)
    uint64_t xcr0;
    uint32_t l1_ecx_extra;     // other feature bits in leaf-1 ECX (this is what is left in ECX for a stale sub-leaf)
};
struct CpuTrap { uint32_t kind, leaf, subleaf; };

struct SimCPU {
    const CpuModel *model = nullptr;
    std::vector<CpuTrap> traps;      // traps of the current op
    uint64_t n_traps = 0;
    bool illegal_xgetbv = false;     // xgetbv executed on a model without OSXSAVE
    void set(const CpuModel *m);     // a different simulated CPU is a different simulated host: the library's thread-local storage starts afresh
    void begin_op() { traps.clear(); illegal_xgetbv = false; }
    static void install();           // SIGILL handler
    // What an ideal probe would conclude on this model.
    static bool want256(const CpuModel &m) { return m.maxleaf >= 7 && m.avx2 && m.avx && m.osxsave && (m.xcr0 & 6) == 6; }
    static bool want128(const CpuModel &m) { return m.sse2; }
};
extern SimCPU g_cpu;

// Thread-local storage of the executable image (the library is linked statically, so a `__thread` variable of library code
// lives here).  The simulator runs every simulated thread and every simulated host on ONE OS thread, so it has to give each
// of them its own copy: thrsim swaps the block at every context switch, and a change of the simulated CPU resets it to the
// initial image.  With no PT_TLS segment (the tree as it stands) all of this is a no-op.
struct ExeTls { uint8_t *block = nullptr; size_t memsz = 0, filesz = 0; const uint8_t *image = nullptr; };
const ExeTls &exe_tls();
void exe_tls_reset();                         // block := initial image
void exe_tls_save(std::vector<uint8_t> &to);  // copy the block out
void exe_tls_load(const std::vector<uint8_t> &from);
bool in_thread_local_storage(const void *p);     // any module's TLS block of this OS thread (errno, ...)
static inline bool in_exe_tls(const void *p) { const ExeTls &t = exe_tls(); return t.memsz && (const uint8_t *)p >= t.block && (const uint8_t *)p < t.block + t.memsz; }
extern const CpuModel CPU_GENERIC, CPU_SSE2, CPU_AVX2;   // pinning models
const CpuModel *cpu_pin_model(int backend);               // 0 generic, 1 vec128, 2 vec256

// ------------------------------------------------------------------ SimDirt
void dirty_stack(uint64_t pattern);
extern "C" long call_with_junk_regs(void *fn, void *arg, uint64_t junk);   // C13: junk in caller-saved non-argument registers

// ------------------------------------------------------------------ SimMem
enum { MEM_SLAB = 0, MEM_END_FLUSH = 1, MEM_START_FLUSH = 2 };
struct ArgArea {
    static const size_t DATA = 262144;   // large enough for single calls of tens of kilobytes
    uint8_t *map = nullptr;     // [guard page][DATA][guard page]
    uint8_t *data() const { return map + 4096; }
    uint8_t fillb = 0;
    uint8_t *cur = nullptr; size_t curlen = 0;
    void init();
    void begin_run(uint8_t fill);
    uint8_t *place(size_t len, int mode, unsigned align);   // returns buffer start; surroundings are junk
    bool verify_outside(std::string *why);                  // nothing outside [cur,cur+curlen) changed
    bool verify_all(std::string *why);
    bool contains(const void *p) const { return map && (const uint8_t *)p >= map && (const uint8_t *)p < map + DATA + 8192; }
};
enum { A_OUT = 0, A_IN = 1, A_AUX = 2, A_AUX2 = 3, A_NAREAS = 4 };
extern ArgArea g_area[A_NAREAS];

// caller-owned handles: one page per slot, struct end-flush against a guard page
struct HandleArena {
    static const int NSLOTS = 12;
    uint8_t *map = nullptr;     // per slot: [guard][2 data pages][guard]
    void init();
    uint8_t *slot_page(int s) const { return map + (size_t)s * 16384 + 4096; }
    uint8_t *place(int s, size_t size) const { return slot_page(s) + 8192 - ((size + 15) & ~(size_t)15); }
    bool contains(const void *p) const { return map && (const uint8_t *)p >= map && (const uint8_t *)p < map + (size_t)NSLOTS * 16384; }
};
extern HandleArena g_handles;

// ------------------------------------------------------------------ crash catcher
struct CrashInfo { int sig = 0; uintptr_t addr = 0; uintptr_t pc = 0; const char *where = ""; };
extern sigjmp_buf g_crash_jmp;
extern volatile sig_atomic_t g_in_lib;
extern CrashInfo g_crash;
void install_crash_handlers();
void install_watchdog(int seconds);   // liveness: a library call that does not return within `seconds` is reported like a crash
std::string classify_addr(const void *p);

// run `call` with the library; returns true if it completed, false if it faulted (g_crash filled)
extern int g_wd_timeouts;                // calls ended by the watchdog in this process
extern volatile uint64_t g_call_seq;     // bumped at every library call: the watchdog's notion of progress
#define GUARDED_CALL(stmt) \
    (sigsetjmp(g_crash_jmp, 1) == 0 ? (++g_call_seq, g_in_lib = 1, (stmt), g_in_lib = 0, true) : (g_in_lib = 0, false))
// same, but the stack below the caller is dirtied *after* sigsetjmp returned, so that the garbage the
// library's frames lie on is a pure function of `pat` (no return addresses of libc frames in it)
#define GUARDED_CALL_DIRTY(pat, stmt) \
    (sigsetjmp(g_crash_jmp, 1) == 0 ? (++g_call_seq, g_in_lib = 1, dirty_stack(pat), (stmt), g_in_lib = 0, true) : (g_in_lib = 0, false))

// Determinism of everything the library can observe, including garbage: no ASLR, fixed-address
// simulator stack, fixed-address arenas.
void disable_aslr_and_reexec(char **argv);
void run_on_sim_stack(void (*fn)(void *), void *arg);

void seams_init();
