#!/bin/sh
# usage: mk/try_patch.sh PATCH.diff ID [ID...]   -- apply PATCH to a scratch copy of /repo (HEAD), run the
# quick checks against the copy with private build/evidence/replay dirs, print the verdict lines, clean up.
set -e
PATCH=$(readlink -f "$1"); shift
S=$(mktemp -d /tmp/vp-scratch.XXXXXX)
trap 'rm -rf "$S"' EXIT
git -C /repo archive HEAD | tar -x -C "$S" --one-top-level=repo
(cd "$S/repo" && patch -p1 -s < "$PATCH")
mkdir -p "$S/build" "$S/ev" "$S/replays" "$S/verif"
# a frozen copy of the machinery, so that edits under /verif while this runs cannot mix two versions of it
cp -r /verif/check /verif/mk /verif/sim /verif/known_findings.txt "$S/verif/"
for id in "$@"; do
  echo "=== $id against $(basename "$PATCH")"
  VERIF_REPO="$S/repo" VERIF_BUILD="$S/build" VERIF_EVIDENCE="$S/ev" VERIF_REPLAYS="$S/replays" "$S/verif/check" "$id" --quick > "$S/out.txt" 2>&1 || true
  grep -E "^VIOLATION|^KNOWN|^---- |^     [A-Za-z]" "$S/out.txt" | cut -c1-300 | head -${LINES_MAX:-12} || true
  grep -E "^C[0-9]+ quick|HARNESS" "$S/out.txt" | cut -c1-300 | head -3 || true
  echo "exit=$?"
done
