// Reference models.  spec_skinny() is written from the SKINNY specification
// (ePrint 2016/660), see DESIGN.md Appendix A; it is C04's oracle only.
#pragma once
#include "core.hpp"

struct SpecSkinny {
    uint8_t s8[256], s8i[256], s4[16], s4i[16];
    bool ok = false;
    SpecSkinny() {
        static const uint8_t S4[16] = {0xc, 0x6, 0x9, 0x0, 0x1, 0xa, 0x2, 0xb, 0x3, 0x8, 0x5, 0xd, 0x4, 0xe, 0x7, 0xf};
        for (int i = 0; i < 16; ++i) { s4[i] = S4[i]; s4i[S4[i]] = (uint8_t)i; }
        for (int v = 0; v < 256; ++v) {
            int x[8]; for (int i = 0; i < 8; ++i) x[i] = (v >> i) & 1;
            for (int it = 0; it < 4; ++it) {
                x[4] ^= !(x[7] | x[6]);
                x[0] ^= !(x[3] | x[2]);
                if (it < 3) { int y[8] = {x[5], x[3], x[0], x[4], x[6], x[7], x[1], x[2]}; /* (x7..x0) <- (x2,x1,x7,x6,x4,x0,x3,x5) */ memcpy(x, y, sizeof y); }
                else { int t = x[1]; x[1] = x[2]; x[2] = t; }
            }
            int o = 0; for (int i = 0; i < 8; ++i) o |= x[i] << i;
            s8[v] = (uint8_t)o;
        }
        for (int v = 0; v < 256; ++v) s8i[s8[v]] = (uint8_t)v;
        ok = s8[0] == 0x65 && s8[1] == 0x4c && s8[2] == 0x6a && s8[3] == 0x42;
    }
    // bs: 16 or 8.  tk: z*bs bytes (TK1 || TK2 || TK3).  tweaked: add the tweak-domain constant in every round.
    void crypt(int bs, const uint8_t *tk, int z, bool tweaked, const uint8_t *in, uint8_t *out, bool decrypt) const {
        static const int PT[16] = {9, 15, 8, 13, 10, 14, 12, 11, 0, 1, 2, 3, 4, 5, 6, 7};
        int rounds = bs == 16 ? 32 + 8 * z : (z == 1 ? 32 : z == 2 ? 36 : 40);
        uint8_t st[16], t[3][16];
        auto unpack = [&](const uint8_t *p, uint8_t *c) { if (bs == 16) memcpy(c, p, 16); else for (int i = 0; i < 8; ++i) { c[2 * i] = p[i] >> 4; c[2 * i + 1] = p[i] & 15; } };
        unpack(in, st);
        for (int j = 0; j < z; ++j) unpack(tk + j * bs, t[j]);
        uint8_t rtk[56][8]; uint8_t rcs[56];
        uint8_t rc = 0;
        for (int r = 0; r < rounds; ++r) {
            rc = (uint8_t)(((rc << 1) & 0x3F) | (((rc >> 5) ^ (rc >> 4) ^ 1) & 1));
            rcs[r] = rc;
            for (int i = 0; i < 8; ++i) { uint8_t v = 0; for (int j = 0; j < z; ++j) v ^= t[j][i]; rtk[r][i] = v; }
            for (int j = 0; j < z; ++j) {
                uint8_t n[16]; for (int i = 0; i < 16; ++i) n[i] = t[j][PT[i]];
                memcpy(t[j], n, 16);
                if (j == 1) for (int i = 0; i < 8; ++i) { uint8_t x = t[j][i]; t[j][i] = bs == 16 ? (uint8_t)(((x << 1) & 0xFE) | (((x >> 7) ^ (x >> 5)) & 1)) : (uint8_t)(((x << 1) & 0xE) | (((x >> 3) ^ (x >> 2)) & 1)); }
                if (j == 2) for (int i = 0; i < 8; ++i) { uint8_t x = t[j][i]; t[j][i] = bs == 16 ? (uint8_t)((x >> 1) | (((x ^ (x >> 6)) & 1) << 7)) : (uint8_t)((x >> 1) | (((x ^ (x >> 3)) & 1) << 3)); }
            }
        }
        auto sub = [&](bool inv) { for (int i = 0; i < 16; ++i) st[i] = bs == 16 ? (inv ? s8i[st[i]] : s8[st[i]]) : (inv ? s4i[st[i]] : s4[st[i]]); };
        auto addk = [&](int r) {
            st[0] ^= rcs[r] & 0xF; st[4] ^= rcs[r] >> 4; st[8] ^= 2;
            for (int i = 0; i < 8; ++i) st[i] ^= rtk[r][i];
            if (tweaked) st[2] ^= 2;
        };
        if (!decrypt) {
            for (int r = 0; r < rounds; ++r) {
                sub(false); addk(r);
                uint8_t n[16];
                for (int row = 0; row < 4; ++row) for (int c = 0; c < 4; ++c) n[row * 4 + (c + row) % 4] = st[row * 4 + c];   // row i rotated right by i
                for (int c = 0; c < 4; ++c) {
                    uint8_t a0 = n[c], a1 = n[4 + c], a2 = n[8 + c], a3 = n[12 + c];
                    st[c] = a0 ^ a2 ^ a3; st[4 + c] = a0; st[8 + c] = a1 ^ a2; st[12 + c] = a0 ^ a2;
                }
            }
        } else {
            for (int r = rounds - 1; r >= 0; --r) {
                uint8_t n[16];
                for (int c = 0; c < 4; ++c) {
                    uint8_t b0 = st[c], b1 = st[4 + c], b2 = st[8 + c], b3 = st[12 + c];
                    uint8_t a0 = b1, a2 = b1 ^ b3, a1 = b2 ^ a2, a3 = b0 ^ a0 ^ a2;
                    n[c] = a0; n[4 + c] = a1; n[8 + c] = a2; n[12 + c] = a3;
                }
                for (int row = 0; row < 4; ++row) for (int c = 0; c < 4; ++c) st[row * 4 + c] = n[row * 4 + (c + row) % 4];
                addk(r); sub(true);
            }
        }
        if (bs == 16) memcpy(out, st, 16); else for (int i = 0; i < 8; ++i) out[i] = (uint8_t)(st[2 * i] << 4 | st[2 * i + 1]);
    }
    // self-check against the published vectors (test/test-skinny.c carries the same ones)
    bool selftest() const {
        if (!ok) return false;
        struct V { int bs, z; const char *key, *pt, *ct; };
        static const V vs[] = {
            {8, 1, "f5269826fc681238", "06034f957724d19d", "bb39dfb2429b8ac7"},
            {8, 2, "9eb93640d088da6376a39d1c8bea71e1", "cf16cfe8fd0f98aa", "6ceda1f43de92b9e"},
            {8, 3, "ed00c85b120d68618753e24bfd908f60b2dbb41b422dfcd0", "530c61d35e8663c3", "dd2cf1a8f330303c"},
            {16, 1, "4f55cfb0520cac52fd92c15f37073e93", "f20adb0eb08b648a3b2eeed1f0adda14", "22ff30d498ea62d7e45b476e33675b74"},
            {16, 2, "009cec81605d4ac1d2ae9e3085d7a1f31ac123ebfc00fddcf01046ceeddfcab3", "3a0c47767a26a68dd382a695e7022e25", "b731d98a4bde147a7ed4a6f16b9b587f"},
            {16, 3, "df889548cfc7ea52d296339301797449ab588a34a47f1ab2dfe9c8293fbea9a5ab1afac2611012cd8cef952618c3ebe8", "a3994b66ad85a3459f44e92b08f550cb", "94ecf589e2017c601b38c6346a10dcfa"},
        };
        for (auto &v : vs) {
            Bytes k = unhex(v.key), p = unhex(v.pt), c = unhex(v.ct); uint8_t o[16];
            crypt(v.bs, k.data(), v.z, false, p.data(), o, false); if (memcmp(o, c.data(), v.bs)) return false;
            crypt(v.bs, k.data(), v.z, false, c.data(), o, true); if (memcmp(o, p.data(), v.bs)) return false;
        }
        return true;
    }
};

// big-endian add on a counter block
static inline void be_add(uint8_t *c, int n, unsigned inc) {
    for (int i = n; i > 0;) { --i; inc += c[i]; c[i] = (uint8_t)inc; inc >>= 8; }
}
