"""Engines other than the plain objsim runs: thrsim (C18), ctsim (C08), cfgsim (C12), toolsim (C20), ardsim (C19)."""
import os, sys, json, subprocess, time, re
import props


def _run_json(cmd, out, what):
    p = subprocess.run(cmd, capture_output=True, text=True)
    if p.returncode not in (0, 1):
        sys.stderr.write(p.stdout[-3000:] + p.stderr[-6000:])
        print("HARNESS-ERROR %s exit=%d" % (what, p.returncode))
        raise SystemExit(2)
    res = json.load(open(out))
    os.unlink(out)
    return res


def symbolise(binary, text):
    """replace pc+0x... tokens by function/file:line using addr2line on the binary"""
    def rep(m):
        try:
            o = subprocess.run(["addr2line", "-f", "-C", "-e", binary, m.group(1)], capture_output=True, text=True).stdout.split("\n")
            return "%s (%s)" % (o[0], o[1].replace("/repo/", ""))
        except Exception:
            return m.group(0)
    return re.sub(r"pc\+(0x[0-9a-f]+)", rep, text)


# ----------------------------------------------------------------------------- C18 thrsim
def check_c18(ctx):
    known, _ = props.load_known(ctx)
    known_here = [k for k in known if k["property"] == "C18"]
    base = 40000 if ctx.tier == "quick" else 3000000
    results = []
    for i, (fl, frac) in enumerate([("tsanhook", 1.0), ("tsanhook_o0", 0.25), ("tsanhook_w32", 0.25)]):
        d = props.build_flavour(ctx, fl, targets=("thrsim",))
        out = os.path.join(ctx.B, "out", "C18-%s-%d.json" % (fl, os.getpid()))
        os.makedirs(os.path.dirname(out), exist_ok=True)
        cmd = [os.path.join(d, "thrsim"), "--tier", ctx.tier, "--seed", str(ctx.seed), "--runs", str(int(base * frac)), "--first", str(i * base),
               "--out", out, "--outdir", os.path.join(ctx.B, "out"), "--replaydir", ctx.replay_dir]
        r = _run_json(cmd, out, "property=C18 flavour=" + fl)
        for v in r["violations"]:
            v["msg"] = symbolise(os.path.join(d, "thrsim"), v["msg"])
        results.append((fl, r))
    violations, findings = [], []
    for fl, r in results:
        for v in r["violations"]:
            v["flavour"] = fl
            hit = [k for k in known_here if k["sig"] == v["sig"]]
            (findings if hit else violations).append((v, hit[0] if hit else None))
    st = {}
    for _, r in results:
        for k, v in r["stats"].items():
            st[k] = st.get(k, 0) + v
    extra = {
        "scheduler": {"context_switches": st.get("switches", 0), "instrumented_accesses": st.get("accesses", 0), "accesses_checked_by_race_monitor": st.get("recorded", 0),
                      "distinct_interleavings_measure": "hash of the (task, accesses-run) segment sequence of a run; distinct_nontrivial counts distinct hashes"},
        "components": {"real": "all of /repo/src compiled with the repository's flags plus -fsanitize=thread (instrumentation only; our own call-backs, not the TSan run-time), gcc -O3 and -O0, and the 32-bit-word code paths (hook switch SKINNY_VERIF_64BIT=0)",
                       "simulated": "threads (coroutines under a seeded scheduler pre-empting at every instrumented access), allocator, CPUID"},
    }
    rule = ("2-4 tasks per run, three scenarios (distinct objects with free histories; one shared keyed schedule or parallel-ECB object used read-only by all tasks; concurrent init/cleanup); "
            "pre-emption with p in {1/4,1/32,1/256} per instrumented access or 1-3 change points; oracles: each task's results equal the same history run alone, race monitor over all "
            "non-stack accesses, global-write monitor (.data/.bss); distinct+non-trivial = distinct schedule-segment sequences (every run has >= 2 tasks that both execute library code)")
    return props.finish(ctx, "exploration", rule, results, violations, findings, extra_cov=extra,
                        assumptions=["interleavings at compiler-visible-access granularity under sequential consistency; accesses wider than 16 bytes (AVX rows) are not instrumented",
                                     "the instrumented build (-fsanitize=thread) has the same sharing structure as the shipped one", "sampling of schedules"])


# ----------------------------------------------------------------------------- C08 ctsim
def check_c08(ctx):
    known, _ = props.load_known(ctx)
    known_here = [k for k in known if k["property"] == "C08"]
    base = 8000 if ctx.tier == "quick" else 400000
    results = []
    flavours = [("cthook", 1.0, None, ()), ("cthook_o0", 0.3, None, ()), ("cthook_clang", 0.5, None, ()), ("cthook_w32_u0_nosimd", 0.3, None, ())]
    if ctx.tier == "thorough":
        # the compile-time paths the shipped build does not contain (32-bit words, byte-wise access, SIMD stubbed out) through the C12 hook
        flavours += [(f, 0.3, None, ()) for f in ("cthook_w32", "cthook_neutral")]
    for i, (fl, frac, bl, defs) in enumerate(flavours):
        d = props.build_flavour(ctx, fl, base=bl, defs=defs)
        r = props.run_objsim(ctx, fl, "C08", int(base * frac), i * base, [k["sig"] for k in known_here], build=False)
        for v in r["violations"]:
            v["msg"] = symbolise(os.path.join(d, "objsim"), v["msg"])
        results.append((fl, r))
    violations, findings = [], []
    for fl, r in results:
        for v in r["violations"]:
            v["flavour"] = fl
            hit = [k for k in known_here if k["sig"] == v["sig"]]
            (findings if hit else violations).append((v, hit[0] if hit else None))
    pr = {}
    for _, r in results:
        for k, v in r["probes"].items():
            pr[k] = pr.get(k, 0) + v
    extra = {"trace_events_compared": pr.get("ct.events", 0),
             "components": {"real": "all of /repo/src with the repository's flags plus -fsanitize=kernel-address with out-of-line call-backs for every load and store (constant tables included) and -fsanitize-coverage=trace-pc for basic blocks (instrumentation only, our own call-backs): gcc -O3, gcc -O0, clang -O3, and the 32-bit-word/byte-access/no-SIMD paths through the SKINNY_VERIF hook",
                            "simulated": "allocator, CPUID, stack and buffer placement (all fixed so that two executions are comparable event for event)"}}
    rule = ("each seeded public plan (operation kinds, lengths, rounds, mode, back end via the CPU model, placements) is executed with 7 secret assignments (as generated, all-00, all-FF, two random, all-01, all-80) "
            "for every key, tweak, counter, data and tweak-array byte (seven since the bytes 01 and 80 were added); the sequence of basic blocks entered and of (address,size,read/write) accesses made by library code during the "
            "calls must be identical; distinct+non-trivial = distinct (kind, back end, op, state, size class) transitions traced")
    return props.finish(ctx, "exploration", rule, results, violations, findings, extra_cov=extra,
                        assumptions=["branches and addresses are observed at the compiler's instrumentation level of an instrumented build, not micro-architectural timing and not the exact shipped object code",
                                     "memcpy/memset stay calls into libc (their lengths are public; their addresses come from instrumented pointer computations)",
                                     "secrets are sampled: 7 assignments per public plan"])


CHECKS = {"C18": check_c18, "C08": check_c08}


def run(ctx):
    if ctx.pid in CHECKS:
        return CHECKS[ctx.pid](ctx)
    print("unknown property or no check registered: %s" % ctx.pid)
    return 2


def replay(ctx, engine, fl, path):
    if engine == "thrsim":
        d = props.build_flavour(ctx, fl, targets=("thrsim",))
        p = subprocess.run([os.path.join(d, "thrsim"), "--replay", path], capture_output=True, text=True)
        sys.stdout.write(symbolise(os.path.join(d, "thrsim"), p.stdout))
        return p.returncode
    if engine == "cfgsim":
        return replay_c12(ctx, path)
    if engine == "toolsim":
        return replay_c20(ctx, path)
    if engine == "ardsim":
        return replay_c19(ctx, path)
    print("unknown engine in replay file: %s" % engine)
    return 2


def prebuild(ctx):
    for fl in ("tsanhook", "tsanhook_o0", "tsanhook_w32"):
        props.build_flavour(ctx, fl, targets=("thrsim",))
        print("built", fl)
    for fl in ("cthook", "cthook_o0", "cthook_clang", "cthook_w32_u0_nosimd"):
        props.build_flavour(ctx, fl)
        print("built", fl)
    build_toolsim(ctx); print("built toolsim")
    build_ardsim(ctx); print("built ardsim")
    for c in QUICK_CFGS:
        build_cfg(ctx, c)
    print("built %d build configurations" % len(QUICK_CFGS))


# ----------------------------------------------------------------------------- C12 cfgsim
SIMD = {"both": {"LITTLE_ENDIAN": 1, "VEC128_MATH": 1, "VEC256_MATH": 1}, "v128": {"LITTLE_ENDIAN": 1, "VEC128_MATH": 1, "VEC256_MATH": 0},
        "off": {"LITTLE_ENDIAN": 1, "VEC128_MATH": 0, "VEC256_MATH": 0}, "offbe": {"LITTLE_ENDIAN": 0, "VEC128_MATH": 0, "VEC256_MATH": 0}}
# configurations selected the way options.mak documents it (make variables), not through the hook: the SIMD flag sets emptied
MAKEVAR_CFGS = {"mk256off": ["VEC256_CFLAGS="], "mksimdoff": ["VEC128_CFLAGS=", "VEC256_CFLAGS="]}
QUICK_CFGS = [("gcc", "-O3", 1, 1, "both"), ("clang", "-O3", 0, 0, "off"), ("gcc", "-O0", 0, 1, "v128"), ("clang", "-O0", 1, 0, "both"),
              ("gcc", "-O1", 1, 0, "offbe"), ("clang", "-O1", 0, 1, "offbe"), ("gcc", "-O2", 0, 0, "both"), ("clang", "-O2", 1, 1, "v128"),
              ("gcc", "-O2", 1, 1, "off"), ("clang", "-O3", 1, 0, "v128"), ("gcc", "-O3", 0, 1, "offbe"), ("clang", "-O0", 0, 0, "off"),
              ("gcc", "-O3", None, None, "mk256off"), ("clang", "-O2", None, None, "mksimdoff")]


def all_cfgs():
    out = []
    for cc in ("gcc", "clang"):
        for opt in ("-O0", "-O1", "-O2", "-O3"):
            for w in (0, 1):
                for u in (0, 1):
                    for simd in ("both", "v128", "off", "offbe"):
                        out.append((cc, opt, w, u, simd))
            for mk in MAKEVAR_CFGS:
                out.append((cc, opt, None, None, mk))
    return out


def cfg_name(c):
    if c[4] in MAKEVAR_CFGS:
        return "cfg-%s%s-%s" % (c[0], c[1], c[4])
    return "cfg-%s%s-w%d-u%d-%s" % (c[0], c[1], 64 if c[2] else 32, c[3], c[4])


def build_cfg(ctx, c):
    name = cfg_name(c)
    d = os.path.join(ctx.B, name)
    cmd = [sys.executable, os.path.join(ctx.V, "mk", "buildlib.py"), "cfg", os.path.join(d, "lib"), "--repo", ctx.repo, "--cc", c[0], "--opt=" + c[1]]
    if c[4] in MAKEVAR_CFGS:
        for mv in MAKEVAR_CFGS[c[4]]:
            cmd += ["--makevar", mv]
    else:
        defs = ["SKINNY_VERIF", "SKINNY_VERIF_64BIT=%d" % c[2], "SKINNY_VERIF_UNALIGNED=%d" % c[3]] + ["SKINNY_VERIF_%s=%d" % kv for kv in SIMD[c[4]].items()]
        for x in defs:
            cmd += ["--def", x]
    with props.BuildLock(ctx.B):
        p = subprocess.run(cmd, capture_output=True, text=True)
        if p.returncode == 3:      # a library source does not compile in this configuration
            return None, "build of %s failed:\n%s" % (name, p.stderr[-1500:])
        if p.returncode != 0:
            sys.stderr.write(p.stdout + p.stderr)
            print("HARNESS-ERROR property=C12 cfg=%s" % name)
            raise SystemExit(2)
        p = subprocess.run(["make", "-C", os.path.join(ctx.V, "sim"), "FLAVOUR=" + name, "REPO=" + ctx.repo, "B=" + ctx.B, "LINKSAN=0", "-j16", "objsim"], capture_output=True, text=True)
        if p.returncode != 0:
            sys.stderr.write(p.stdout[-3000:] + p.stderr[-6000:])
            raise SystemExit(2)
    return d, None


def run_digests(ctx, d, name, runs, first=0):
    out = os.path.join(ctx.B, "out", "C12-%s-%d.json" % (name, os.getpid()))
    os.makedirs(os.path.dirname(out), exist_ok=True)
    cmd = [os.path.join(d, "objsim"), "--prop", "DIG", "--seed", str(ctx.seed), "--runs", str(runs), "--first", str(first), "--digests", "--out", out,
           "--outdir", os.path.join(ctx.B, "out"), "--workers", "16", "--replaydir", ctx.replay_dir]
    return _run_json(cmd, out, "property=C12 cfg=" + name)


def explain_digest_diff(ctx, da, db, run):
    """operation-level diff of one seeded run on two builds"""
    def dump(d):
        p = subprocess.run([os.path.join(d, "objsim"), "--prop", "DIG", "--seed", str(ctx.seed), "--dump", str(run)], capture_output=True, text=True)
        return [re.sub(r"\s+\[[a-z\-]+,be=-?\d+\]$", "", l) for l in p.stdout.split("\n")]
    a, b = dump(da), dump(db)
    for i, (x, y) in enumerate(zip(a, b)):
        if x != y:
            return ["first difference at trace line %d:" % i, "  A: " + x[:300], "  B: " + y[:300]] + ["  context: " + l[:200] for l in a[max(0, i - 4):i]]
    return ["(dumps are identical line by line although the digests differ)"]


def check_c12(ctx):
    cfgs = QUICK_CFGS if ctx.tier == "quick" else all_cfgs()
    runs = 3000 if ctx.tier == "quick" else 12000
    known, _ = props.load_known(ctx)
    known_here = [k for k in known if k["property"] == "C12"]
    ref = None
    results, violations, findings, builds = [], [], [], []
    for c in cfgs:
        name = cfg_name(c)
        d, err = build_cfg(ctx, c)
        if err:
            # a configuration that does not compile is reported, not silently skipped
            path = os.path.join(ctx.replay_dir, "C12-%s-build.replay" % name)
            open(path, "w").write("engine cfgsim\nprop C12\ncfg %s\nexpect build-failure\n# %s\n" % (name, err.replace("\n", "\n# ")))
            violations.append(({"inv": "build-failure", "sig": "build-failure:" + name, "msg": err[:600], "replay": path, "flavour": name, "trace": [], "run": -1, "ops_before": 0, "ops_after": 0}, None))
            continue
        r = run_digests(ctx, d, name, runs)
        builds.append(name)
        results.append((name, r))
        for v in r["violations"]:   # crashes inside a configuration
            v["flavour"] = name
            violations.append((v, None))
        if ref is None:
            ref = (name, d, r["digests"])
            continue
        bad = sorted((k for k in ref[2] if k in r["digests"] and ref[2][k] != r["digests"][k]), key=int)
        if bad:
            path = os.path.join(ctx.replay_dir, "C12-%s-vs-%s-%d-%s.replay" % (ref[0], name, ctx.seed, bad[0]))
            expl = explain_digest_diff(ctx, ref[1], d, bad[0])
            with open(path, "w") as f:
                f.write("# cfgsim replay: one seeded history, two build configurations, API-visible results must be identical\n")
                f.write("engine cfgsim\nprop C12\nseed %d\nrun %s\ncfg_a %s\ncfg_b %s\nexpect config-dependence\n" % (ctx.seed, bad[0], "|".join(map(str, cfgs[0])), "|".join(map(str, c))))
                for l in expl:
                    f.write("# " + l + "\n")
            v = {"inv": "config-dependence", "sig": "config-dependence:" + name, "run": int(bad[0]), "op": -1, "replay": path, "flavour": name, "trace": expl, "ops_before": 0, "ops_after": 0, "occurrences": len(bad),
                 "msg": "%d of %d seeded histories give different API-visible results on build %s than on the reference build %s (first: run %s)" % (len(bad), len(ref[2]), name, ref[0], bad[0])}
            hit = [k for k in known_here if k["sig"] == v["sig"]]
            (findings if hit else violations).append((v, hit[0] if hit else None))
    extra = {"builds": builds, "configurations": len(builds), "exhaustive": ctx.tier != "quick",
             "matrix": "compiler {gcc,clang} x -O{0,1,2,3} x ( SKINNY_64BIT {0,1} x SKINNY_UNALIGNED {0,1} x {SIMD 128+256, SIMD 128, SIMD off, SIMD off + byte-order-neutral path} through the SKINNY_VERIF hook  +  {VEC256_CFLAGS emptied, VEC128_CFLAGS and VEC256_CFLAGS emptied} through make variables as options.mak documents ): 144 builds; quick = 14 builds covering every pair of hook switch values plus both make-variable configurations",
             "components": {"real": "all of /repo/src, once per configuration, through the SKINNY_VERIF hook", "simulated": "allocator, CPUID (restricted by what the build contains), garbage, placement"}}
    rule = ("one seed = one history (mixture of the C03-C10/C14/C15 workloads), replayed on every build configuration; the digest of all API-visible results (return values and output bytes, "
            "no structure images, no back-end identity) must equal the reference configuration's; evaluations = histories x configurations")
    rc = props.finish(ctx, "exploration", rule, results, violations, findings, extra_cov=extra,
                      assumptions=["-m32 code generation cannot be linked in this sandbox; the 32-bit word paths are reached through SKINNY_64BIT=0", "big-endian hosts are out of reach; SKINNY_LITTLE_ENDIAN=0 is the byte-order-neutral scalar path on this little-endian host, with SIMD off"])
    return rc


def replay_c12(ctx, path):
    cfg = {}
    for ln in open(path):
        t = ln.split()
        if t and t[0] in ("seed", "run", "cfg_a", "cfg_b"):
            cfg[t[0]] = t[1]
    def parse(s):
        a = s.split("|"); return (a[0], a[1], None if a[2] == "None" else int(a[2]), None if a[3] == "None" else int(a[3]), a[4])
    ctx.seed = int(cfg["seed"])
    ca, cb = parse(cfg["cfg_a"]), parse(cfg["cfg_b"])
    da, _ = build_cfg(ctx, ca); db, _ = build_cfg(ctx, cb)
    ra = run_digests(ctx, da, cfg_name(ca), 1, int(cfg["run"])); rb = run_digests(ctx, db, cfg_name(cb), 1, int(cfg["run"]))
    if ra["digests"] == rb["digests"]:
        print("REPLAY-CLEAN property=C12 file=%s" % path); return 0
    for l in explain_digest_diff(ctx, da, db, cfg["run"]):
        print(l)
    print("VIOLATION property=C12 replay=%s" % path)
    return 1


CHECKS["C12"] = check_c12


# ----------------------------------------------------------------------------- C20 toolsim
def build_toolsim(ctx):
    props.build_flavour(ctx, "plain")
    with props.BuildLock(ctx.B):
        p = subprocess.run([sys.executable, os.path.join(ctx.V, "mk", "buildlib.py"), "tools", os.path.join(ctx.B, "tools", "obj"), "--repo", ctx.repo], capture_output=True, text=True)
        if p.returncode != 0:
            sys.stderr.write(p.stdout + p.stderr); print("HARNESS-ERROR property=C20 (tools do not build)"); raise SystemExit(2)
        p = subprocess.run(["make", "-C", os.path.join(ctx.V, "sim"), "FLAVOUR=plain", "REPO=" + ctx.repo, "B=" + ctx.B, "LINKSAN=0", "-j16", "toolsim"], capture_output=True, text=True)
        if p.returncode != 0:
            sys.stderr.write(p.stdout[-3000:] + p.stderr[-6000:]); raise SystemExit(2)
    return os.path.join(ctx.B, "tools", "toolsim")


def check_c20(ctx):
    exe = build_toolsim(ctx)
    known, _ = props.load_known(ctx)
    known_here = [k for k in known if k["property"] == "C20"]
    base = 8000 if ctx.tier == "quick" else 300000
    results = []
    for name, extra, runs, first in (("tools", [], base, 0), ("tools+iofaults", ["--faults"], base // 8, base)):
        out = os.path.join(ctx.B, "out", "C20-%s-%d.json" % (name, os.getpid()))
        os.makedirs(os.path.dirname(out), exist_ok=True)
        cmd = [exe, "--tier", ctx.tier, "--seed", str(ctx.seed), "--runs", str(runs), "--first", str(first), "--out", out, "--outdir", os.path.join(ctx.B, "out"), "--replaydir", ctx.replay_dir] + extra
        results.append((name, _run_json(cmd, out, "property=C20 " + name)))
    violations, findings = [], []
    for fl, r in results:
        for v in r["violations"]:
            v["flavour"] = fl
            hit = [k for k in known_here if k["sig"] == v["sig"]]
            (findings if hit else violations).append((v, hit[0] if hit else None))
    st = {}
    for _, r in results:
        for k, v in r["stats"].items():
            st[k] = st.get(k, 0) + v
    extra = {"faults_fired": {"short_reads_at_the_file_layer": st.get("short_reads", 0), "write_errors_injected": st.get("write_errors_injected", 0), "io_fault_runs": st.get("fault_runs", 0), "crashes_under_io_faults(not a violation: the property is silent about I/O failure)": st.get("fault_crashes", 0)},
             "invocations": {"valid": st.get("valid_invocations", 0), "invalid": st.get("invalid_invocations", 0)},
             "components": {"real": "examples/*.c compiled with the repository's flags (main renamed per tool, fopen redirected), linked with the library built from the working tree", "simulated": "file layer (fopencookie streams over in-memory files with seeded read chunking and, in the fault configuration, read/write errors); one forked process per invocation"}}
    rule = ("tool x block size x key length (legal range incl. in-between lengths) x counter/tweak (absent, short, full, carry-prone) x file length (0, 1, bs-1, bs, bs+1, 1023..1025, 2047..2049, random <= 5000) x hex spelling x "
            "read-chunking policy; a quarter of the runs are invalid invocations (9 classes); oracle: output equals the library API's result, the inverse invocation restores the input, invalid invocations exit non-zero without "
            "opening the output; distinct+non-trivial = distinct (tool, block size, key length, counter length, file-length class, validity, direction, chunk policy) combinations")
    return props.finish(ctx, "exploration", rule, results, violations, findings, extra_cov=extra,
                        assumptions=["the tools' documented behaviour is examples/README.md plus the usage text; well-formed hex only (even digit count, separators between bytes)", "glibc stdio hides short reads of the underlying layer, as POSIX requires"])


def replay_c20(ctx, path):
    exe = build_toolsim(ctx)
    return subprocess.run([exe, "--replay", path]).returncode


CHECKS["C20"] = check_c20


# ----------------------------------------------------------------------------- C19 ardsim
def build_ardsim(ctx):
    props.build_flavour(ctx, "plain")
    with props.BuildLock(ctx.B):
        p = subprocess.run(["make", "-C", os.path.join(ctx.V, "sim"), "FLAVOUR=plain", "REPO=" + ctx.repo, "B=" + ctx.B, "LINKSAN=0", "-j16", "ardsim"], capture_output=True, text=True)
        if p.returncode != 0:
            sys.stderr.write(p.stdout[-3000:] + p.stderr[-6000:]); print("HARNESS-ERROR property=C19 (ardsim does not build)"); raise SystemExit(2)
    return os.path.join(ctx.B, "ard", "ardsim")


def check_c19(ctx):
    exe = build_ardsim(ctx)
    known, _ = props.load_known(ctx)
    known_here = [k for k in known if k["property"] == "C19"]
    runs = 80000 if ctx.tier == "quick" else 5000000
    out = os.path.join(ctx.B, "out", "C19-%d.json" % os.getpid())
    os.makedirs(os.path.dirname(out), exist_ok=True)
    r = _run_json([exe, "--tier", ctx.tier, "--seed", str(ctx.seed), "--runs", str(runs), "--out", out, "--outdir", os.path.join(ctx.B, "out"), "--replaydir", ctx.replay_dir], out, "property=C19")
    results = [("ard", r)]
    violations, findings = [], []
    for v in r["violations"]:
        v["flavour"] = "ard"
        hit = [k for k in known_here if k["sig"] == v["sig"]]
        (findings if hit else violations).append((v, hit[0] if hit else None))
    extra = {"results_compared_with_the_C_library": r["stats"].get("results_compared", 0),
             "components": {"real": "arduino/libraries/Skinny/*.cpp (portable C++ path, host g++) and the C library built from the working tree", "simulated": "nothing environmental (the classes allocate nothing and probe nothing): seeded call histories and the reference-model comparison only -- thin fit, see DESIGN.md"}}
    rule = ("for each of the 11 block-cipher classes and CTR<T> over the five Skinny-128 classes: histories of setKey (right/wrong length), setTweak (value, NULL, wrong length), swapModes, encryptBlock/decryptBlock (in place or not), "
            "clear, and for CTR setIV/encrypt/decrypt in fragments; the C library object driven by the same history must give the same bytes wherever both are defined; distinct+non-trivial = distinct (class, operation, previous operation, argument class) pairs")
    return props.finish(ctx, "exploration", rule, results, violations, findings, extra_cov=extra,
                        assumptions=["the AVR inline-assembly path is out of reach on the host", "CTR<T> is compared with the default 16-byte counter and zero tweak (the Arduino wrapper has no tweak call); after setKey a setIV is required before data"])


def replay_c19(ctx, path):
    return subprocess.run([build_ardsim(ctx), "--replay", path]).returncode


CHECKS["C19"] = check_c19


# ----------------------------------------------------------------------------- self-validation: determinism proof (DESIGN.md section 9)
def selftest_determinism(ctx):
    """Every engine: N seeds, executed in separate processes at 16, 16 again, 5 and 1 worker(s); the per-run fingerprints
    (hash of the whole event log: ops, returns, output digests, heap events, CPU traps, scheduler segments) must be identical."""
    n = 2000 if ctx.tier == "quick" else 20000
    bad = 0
    plan = [(p, "plain", "objsim") for p in sorted(props.OBJSIM)] + [("C10", "o0", "objsim"), ("C11", "asan", "objsim"), ("C08", "tsanhook", "objsim"), ("C18", "tsanhook", "thrsim"), ("C18", "tsanhook_o0", "thrsim")]
    for pid, fl, exe in plan:
        d = props.build_flavour(ctx, fl, targets=(exe,))
        fps = []
        for workers in (16, 16, 5, 1):
            out = os.path.join(ctx.B, "out", "selftest-%s-%s-%d-%d.json" % (pid, fl, workers, os.getpid()))
            os.makedirs(os.path.dirname(out), exist_ok=True)
            cmd = [os.path.join(d, exe), "--prop", pid, "--seed", str(ctx.seed), "--runs", str(n if pid != "C13" else 600), "--fingerprints", "--workers", str(workers), "--out", out,
                   "--outdir", os.path.join(ctx.B, "out"), "--replaydir", os.path.join(ctx.B, "out")]
            r = _run_json(cmd, out, "selftest %s %s" % (pid, fl))
            fps.append((r.get("fingerprint_of_fingerprints"), r.get("fingerprints")))
        ok = len(set(fps)) == 1 and fps[0][0]
        print("%-4s %-12s %-7s %s runs x {16,16,5,1} workers: %s  %s" % (pid, fl, exe, fps[0][1], "identical" if ok else "DIFFERENT", fps[0][0] if ok else fps))
        bad += 0 if ok else 1
    print("selftest-determinism: %s" % ("all fingerprints identical" if not bad else "%d engine/flavour combinations differ" % bad))
    return 2 if bad else 0


CHECKS["selftest-determinism"] = selftest_determinism
