// Our own implementation of the call-backs that -fsanitize=thread and
// -fsanitize-coverage=trace-pc make the compiler insert into the library
// (DESIGN.md 2.5).  This is NOT the ThreadSanitizer run-time: every
// compiler-visible memory access and basic block of library code becomes an
// event the simulator owns (a pre-emption point for thrsim, a trace event for
// ctsim).
#include "tsanrt.hpp"

#include <cstdlib>
#include <fcntl.h>
#include <unistd.h>
#include <sys/mman.h>

TsanHooks g_tsan;

// Reach measurement (mk/reach.py): with VERIF_PCCOV=<file> every basic block of instrumented library code that executes
// sets one byte of a file-backed shared map indexed by image offset.  The map is shared by all forked workers and by
// successive processes, costs no PRNG draw and no clock read, and is off unless the variable is set.
extern "C" char __executable_start, etext;
static uint8_t *g_pccov = nullptr; static uintptr_t g_pccov_base = 0, g_pccov_size = 0;
__attribute__((constructor)) static void pccov_init() {
    const char *path = getenv("VERIF_PCCOV"); if (!path || !*path) return;
    g_pccov_base = (uintptr_t)&__executable_start; g_pccov_size = (uintptr_t)&etext - g_pccov_base;
    int fd = open(path, O_RDWR | O_CREAT, 0644); if (fd < 0) return;
    if (ftruncate(fd, (off_t)g_pccov_size) != 0) { close(fd); return; }
    void *m = mmap(nullptr, g_pccov_size, PROT_READ | PROT_WRITE, MAP_SHARED, fd, 0); close(fd);
    if (m != MAP_FAILED) g_pccov = (uint8_t *)m;
}
#define PCCOV() do { if (g_pccov) { uintptr_t o = (uintptr_t)__builtin_return_address(0) - g_pccov_base; if (o < g_pccov_size) g_pccov[o] = 1; } } while (0)

#define MEMHOOK(addr, size, wr) do { if (g_tsan.mem) g_tsan.mem((void *)(addr), (size), (wr), __builtin_return_address(0)); } while (0)

extern "C" {
void __tsan_init() {}
void __tsan_func_entry(void *pc) { if (g_tsan.func) g_tsan.func(pc, 1); }
void __tsan_func_exit() { if (g_tsan.func) g_tsan.func(nullptr, 0); }
void __tsan_read1(void *a) { MEMHOOK(a, 1, 0); }
void __tsan_read2(void *a) { MEMHOOK(a, 2, 0); }
void __tsan_read4(void *a) { MEMHOOK(a, 4, 0); }
void __tsan_read8(void *a) { MEMHOOK(a, 8, 0); }
void __tsan_read16(void *a) { MEMHOOK(a, 16, 0); }
void __tsan_write1(void *a) { MEMHOOK(a, 1, 1); }
void __tsan_write2(void *a) { MEMHOOK(a, 2, 1); }
void __tsan_write4(void *a) { MEMHOOK(a, 4, 1); }
void __tsan_write8(void *a) { MEMHOOK(a, 8, 1); }
void __tsan_write16(void *a) { MEMHOOK(a, 16, 1); }
void __tsan_unaligned_read2(void *a) { MEMHOOK(a, 2, 0); }
void __tsan_unaligned_read4(void *a) { MEMHOOK(a, 4, 0); }
void __tsan_unaligned_read8(void *a) { MEMHOOK(a, 8, 0); }
void __tsan_unaligned_read16(void *a) { MEMHOOK(a, 16, 0); }
void __tsan_unaligned_write2(void *a) { MEMHOOK(a, 2, 1); }
void __tsan_unaligned_write4(void *a) { MEMHOOK(a, 4, 1); }
void __tsan_unaligned_write8(void *a) { MEMHOOK(a, 8, 1); }
void __tsan_unaligned_write16(void *a) { MEMHOOK(a, 16, 1); }
void __tsan_read_range(void *a, unsigned long n) { MEMHOOK(a, (unsigned)n, 0); }
void __tsan_write_range(void *a, unsigned long n) { MEMHOOK(a, (unsigned)n, 1); }
void __tsan_vptr_update(void **, void *) {}
void __tsan_vptr_read(void **) {}
void __sanitizer_cov_trace_pc() { PCCOV(); if (g_tsan.pc) g_tsan.pc(__builtin_return_address(0)); }
void __sanitizer_cov_trace_pc_guard(unsigned *) { PCCOV(); if (g_tsan.pc) g_tsan.pc(__builtin_return_address(0)); }
void __sanitizer_cov_trace_pc_guard_init(unsigned *, unsigned *) {}
// C11 atomics in instrumented code (-fsanitize=thread routes them through the run-time).  They are performed for real and
// reported through a separate hook: a synchronisation point for the scheduler, and a write to static storage is still
// hidden mutable global state.
#define ATOMHOOK(addr, size, wr) do { if (g_tsan.atomic) g_tsan.atomic((void *)(addr), (size), (wr), __builtin_return_address(0)); } while (0)
#define TSAN_ATOMICS(N, T) \
    T __tsan_atomic##N##_load(const volatile T *a, int) { ATOMHOOK(a, N / 8, 0); return __atomic_load_n(a, __ATOMIC_SEQ_CST); } \
    void __tsan_atomic##N##_store(volatile T *a, T v, int) { ATOMHOOK(a, N / 8, 1); __atomic_store_n(a, v, __ATOMIC_SEQ_CST); } \
    T __tsan_atomic##N##_exchange(volatile T *a, T v, int) { ATOMHOOK(a, N / 8, 1); return __atomic_exchange_n(a, v, __ATOMIC_SEQ_CST); } \
    T __tsan_atomic##N##_fetch_add(volatile T *a, T v, int) { ATOMHOOK(a, N / 8, 1); return __atomic_fetch_add(a, v, __ATOMIC_SEQ_CST); } \
    T __tsan_atomic##N##_fetch_sub(volatile T *a, T v, int) { ATOMHOOK(a, N / 8, 1); return __atomic_fetch_sub(a, v, __ATOMIC_SEQ_CST); } \
    T __tsan_atomic##N##_fetch_and(volatile T *a, T v, int) { ATOMHOOK(a, N / 8, 1); return __atomic_fetch_and(a, v, __ATOMIC_SEQ_CST); } \
    T __tsan_atomic##N##_fetch_or(volatile T *a, T v, int) { ATOMHOOK(a, N / 8, 1); return __atomic_fetch_or(a, v, __ATOMIC_SEQ_CST); } \
    T __tsan_atomic##N##_fetch_xor(volatile T *a, T v, int) { ATOMHOOK(a, N / 8, 1); return __atomic_fetch_xor(a, v, __ATOMIC_SEQ_CST); } \
    T __tsan_atomic##N##_fetch_nand(volatile T *a, T v, int) { ATOMHOOK(a, N / 8, 1); return __atomic_fetch_nand(a, v, __ATOMIC_SEQ_CST); } \
    int __tsan_atomic##N##_compare_exchange_strong(volatile T *a, T *c, T v, int, int) { ATOMHOOK(a, N / 8, 1); return __atomic_compare_exchange_n(a, c, v, 0, __ATOMIC_SEQ_CST, __ATOMIC_SEQ_CST); } \
    int __tsan_atomic##N##_compare_exchange_weak(volatile T *a, T *c, T v, int, int) { ATOMHOOK(a, N / 8, 1); return __atomic_compare_exchange_n(a, c, v, 0, __ATOMIC_SEQ_CST, __ATOMIC_SEQ_CST); } \
    T __tsan_atomic##N##_compare_exchange_val(volatile T *a, T c, T v, int, int) { ATOMHOOK(a, N / 8, 1); __atomic_compare_exchange_n(a, &c, v, 0, __ATOMIC_SEQ_CST, __ATOMIC_SEQ_CST); return c; }
TSAN_ATOMICS(8, uint8_t)
TSAN_ATOMICS(16, uint16_t)
TSAN_ATOMICS(32, uint32_t)
TSAN_ATOMICS(64, uint64_t)
void __tsan_atomic_thread_fence(int) {}
void __tsan_atomic_signal_fence(int) {}
void *__tsan_memcpy(void *d, const void *s, unsigned long n) { MEMHOOK(s, (unsigned)n, 0); MEMHOOK(d, (unsigned)n, 1); return __builtin_memcpy(d, s, n); }
void *__tsan_memset(void *d, int c, unsigned long n) { MEMHOOK(d, (unsigned)n, 1); return __builtin_memset(d, c, n); }
void *__tsan_memmove(void *d, const void *s, unsigned long n) { MEMHOOK(s, (unsigned)n, 0); MEMHOOK(d, (unsigned)n, 1); return __builtin_memmove(d, s, n); }
}
