// A small forked worker pool shared by the smaller engines (thrsim, toolsim, ardsim).
// Workers are forked once, each handles run indices i = first+w, first+w+nw, ...; one flushed
// result file per worker; a worker that dies is reported with the run it was in and restarted
// behind it.
#pragma once
#include "core.hpp"
#include <sys/wait.h>
#include <sys/mman.h>
#include <unistd.h>
#include <functional>
#include <fstream>

struct PoolResult {
    std::vector<std::string> lines;                 // every line written by the workers
    std::vector<std::pair<uint64_t, int>> deaths;   // (run, wait status)
};

static inline PoolResult run_pool(int nw, uint64_t first, uint64_t total, const std::string &tmpbase,
                                  const std::function<void(uint64_t run, FILE *out)> &one_run,
                                  const std::function<void(FILE *out)> &at_exit) {
    struct Sh { volatile uint64_t cur[64]; };
    Sh *sh = (Sh *)mmap(nullptr, sizeof(Sh), PROT_READ | PROT_WRITE, MAP_SHARED | MAP_ANONYMOUS, -1, 0);
    if (nw < 1) nw = 1; if (nw > 64) nw = 64;
    std::vector<pid_t> pids(nw); std::vector<std::string> paths(nw);
    auto spawn = [&](int w, uint64_t from) {
        fflush(stdout); fflush(stderr);
        pid_t pid = fork();
        if (pid == 0) {
            FILE *f = fopen(paths[w].c_str(), from ? "a" : "w"); if (!f) _exit(2);
            for (uint64_t i = first + w; i < first + total; i += nw) { if (i < from) continue; sh->cur[w] = i; one_run(i, f); }
            sh->cur[w] = ~0ULL;
            at_exit(f); fclose(f); _exit(0);
        }
        pids[w] = pid;
    };
    for (int w = 0; w < nw; ++w) { paths[w] = tmpbase + "-w" + std::to_string(w) + ".txt"; sh->cur[w] = ~0ULL; spawn(w, 0); }
    PoolResult R; int live = nw;
    while (live > 0) {
        int st = 0; pid_t pid = wait(&st); if (pid < 0) break;
        int w = -1; for (int i = 0; i < nw; ++i) if (pids[i] == pid) w = i;
        if (w < 0) continue;
        if (WIFEXITED(st) && WEXITSTATUS(st) == 0) { --live; pids[w] = -1; continue; }
        uint64_t r = sh->cur[w];
        if (r == ~0ULL || R.deaths.size() > 20) { --live; pids[w] = -1; continue; }
        R.deaths.push_back({r, st});
        spawn(w, r + 1);
    }
    for (int w = 0; w < nw; ++w) { std::ifstream f(paths[w]); std::string ln; while (std::getline(f, ln)) R.lines.push_back(ln); unlink(paths[w].c_str()); }
    munmap(sh, sizeof(Sh));
    return R;
}
