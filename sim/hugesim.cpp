// hugesim: single requests of more than 2^31 and 2^32 bytes (C05: however the calls cut the data - including not at all;
// C07: every block count).  The histories are short (init, key, [counter], ONE huge call, one small call after it); what
// the simulator contributes is the memory: input, per-block tweaks and output are sparse mappings of several GiB between
// PROT_NONE reservations of 4 GiB on both sides, so a 32-bit offset that wraps lands in a page that faults; the CPU model
// pins the back end; the oracle samples windows (start, around 2^31 and 2^32, the end, a few seeded places) against the
// block-by-block reference, and checks the bytes just past the end of the output.
#include "core.hpp"
#include "seams.hpp"
#include "lib.hpp"
#include "model.hpp"
#include "pool.hpp"
#include <chrono>
#include <set>
#include <map>
#include <sys/mman.h>
#include <sys/wait.h>
#include <fcntl.h>

static const char *FLAVOUR = "plain";
struct HugeRun {
    int kind = CTR128, cpu = 1; uint64_t size = 0; bool inplace = false, dec = false;
    Bytes key, ctr; unsigned rounds = 6; int mode = 0;
    uint64_t wseed = 0;        // seeds the window contents and the free windows
};
static const int HK[] = {CTR128, CTR64, MCTR, P128, P64, PM};

static HugeRun make_run(uint64_t seed, uint64_t run, const std::string &tier) {
    Rng r(seed, run, "huge"); HugeRun H;
    H.kind = HK[run % 6]; unsigned bs = kind_bs(H.kind);
    int cls = (int)((run / 6) % 3);      // 0: just above 2^31; 1: just above 2^32; 2: control below 2^31
    if (tier != "thorough" && cls == 1) cls = 0;
    uint64_t base = cls == 1 ? (1ULL << 32) : cls == 0 ? (1ULL << 31) : (1ULL << 31) - (1ULL << 20);
    uint64_t extra = (uint64_t)bs * r.below(40);
    if (is_ctr(H.kind)) extra += r.below(bs);                    // CTR: any length
    if (r.chance(1, 3)) extra += (uint64_t)bs * 8 * r.below(5);  // whole batches beyond
    H.size = base + extra;
    H.cpu = kind_fam(H.kind) == 0 ? (int)r.below(3) : (int)r.below(2);
    if (tier != "thorough") H.cpu = kind_fam(H.kind) == 0 ? 2 : 1;       // quick: the widest back end only (the scalar code needs a minute and more for 2 GiB)
    H.inplace = r.chance(1, 3); H.dec = is_par(H.kind) && H.kind != PM && r.chance(1, 2);
    H.key = r.bytes(is_mantis(H.kind) ? 16 : bs * (1 + r.below(3))); H.rounds = 5 + r.below(4); H.mode = H.kind == MCTR ? 1 : (int)r.below(2);
    if (is_ctr(H.kind) && r.chance(2, 3)) { H.ctr = r.bytes(bs); if (r.chance(1, 2)) for (unsigned i = 2; i < bs; ++i) H.ctr[i] = 0xFF; }   // carry-prone counters
    H.wseed = r.next();
    return H;
}
static std::string run_str(const HugeRun &H) {
    return strf("%s size=%llu (2^%d%+lld) cpu=%d %s%s key=%zuB%s", KIND_NAME[H.kind], (unsigned long long)H.size, H.size >= (1ULL << 32) ? 32 : 31,
                (long long)(H.size - (H.size >= (1ULL << 32) ? (1ULL << 32) : (1ULL << 31))), H.cpu, H.inplace ? "in-place" : "separate", H.dec ? " decrypt" : "", H.key.size(), H.ctr.empty() ? "" : (" ctr=" + hex(H.ctr)).c_str());
}

struct Finding { std::string kind, msg; };
static const uint64_t RES = 4ULL << 30;     // PROT_NONE on both sides of every mapping
struct BigMap {
    uint8_t *res = nullptr, *p = nullptr; uint64_t n = 0, mapped = 0;
    bool make(uint64_t size, bool writable) {
        n = size; mapped = (size + 8191) & ~4095ULL;
        res = (uint8_t *)mmap(nullptr, RES + mapped + RES, PROT_NONE, MAP_PRIVATE | MAP_ANONYMOUS | MAP_NORESERVE, -1, 0);
        if (res == MAP_FAILED) { res = nullptr; return false; }
        p = res + RES;
        return mprotect(p, mapped, PROT_READ | (writable ? PROT_WRITE : 0)) == 0;
    }
    void ro() { mprotect(p, mapped, PROT_READ); }
    void drop() { if (res) munmap(res, RES + mapped + RES); res = nullptr; }
};
static void be_add64(uint8_t *c, int n, uint64_t inc) { for (int i = n - 1; i >= 0 && inc; --i) { uint64_t v = (uint64_t)c[i] + (inc & 0xFF); c[i] = (uint8_t)v; inc = (inc >> 8) + (v >> 8); } }

static std::vector<Finding> evaluate(const HugeRun &H, std::vector<std::string> *trace, uint64_t *bytes_checked) {
    std::vector<Finding> F; unsigned bs = kind_bs(H.kind); int k = H.kind;
    auto tr = [&](const std::string &s) { if (trace) trace->push_back(s); };
    // windows: [lo, hi) ranges of the request, block aligned
    std::vector<std::pair<uint64_t, uint64_t>> W; Rng wr(H.wseed);
    auto addw = [&](uint64_t centre, uint64_t half) { uint64_t lo = centre > half ? centre - half : 0, hi = std::min(H.size, centre + half); lo -= lo % bs; if (lo < hi) W.push_back({lo, hi}); };
    addw(0, 512); addw(1ULL << 31, 1024); addw(1ULL << 32, 1024); addw(H.size, 1024); addw((1ULL << 31) - (1ULL << 20), 256);
    for (int i = 0; i < 6; ++i) addw(wr.next() % H.size, 160);
    for (int sh = 24; sh <= 33; ++sh) addw(1ULL << sh, 96);      // other powers of two on the way
    BigMap in, out, tw;
    if (!in.make(H.size, true) || (!H.inplace && !out.make(H.size, true)) || (k == PM && !tw.make(H.size, true))) { F.push_back({"harness", "cannot map the buffers"}); return F; }
    uint8_t *pin = in.p, *pout = H.inplace ? in.p : out.p;
    // seeded content in the windows (the rest of the input stays zero pages); the tail after the request is a canary
    for (auto &w : W) { Rng c(H.wseed ^ w.first); c.fill(pin + w.first, w.second - w.first); if (k == PM) { Rng t(~H.wseed ^ w.first); t.fill(tw.p + w.first, w.second - w.first); } }
    Bytes inw; std::vector<Bytes> win_in; for (auto &w : W) win_in.push_back(Bytes(pin + w.first, pin + w.second));
    uint64_t canary_n = (H.inplace ? in.mapped : out.mapped) - H.size; memset(pout + H.size, 0xC5, canary_n);
    if (!H.inplace) in.ro();
    if (k == PM) tw.ro();
    // the object
    g_cpu.set(cpu_pin_model(H.cpu));
    g_heap.begin_run(0x33, Rng(5), nullptr);
    alignas(64) uint8_t h[512]; memset(h, 0xA7, sizeof h);
    int ret = -1; bool ok = GUARDED_CALL(ret = lib_init(k, h));
    auto fail = [&](const char *kind, const std::string &m) { F.push_back({kind, m}); tr("!! " + m); };
    if (!ok || !ret) { fail("crash", "init failed or crashed"); goto done; }
    ok = GUARDED_CALL(ret = lib_setkey(k, h, H.key.data(), (unsigned)H.key.size(), H.rounds, H.mode));
    if (!ok || ret != 1) { fail("return-value", strf("set_key returned %d", ret)); goto done; }
    if (!H.ctr.empty()) { ok = GUARDED_CALL(ret = lib_setctr(k, h, H.ctr.data(), (unsigned)H.ctr.size())); if (!ok || ret != 1) { fail("return-value", strf("set_counter returned %d", ret)); goto done; } }
    tr(strf("init, set_key(%zu bytes), %s, back end %d", H.key.size(), H.ctr.empty() ? "default counter" : "set_counter", lib_backend(k, h)));
    {
        auto t0 = std::chrono::steady_clock::now();
        if (is_ctr(k)) ok = GUARDED_CALL(ret = lib_enc(k, pout, pin, H.size, h));
        else ok = GUARDED_CALL(ret = lib_par(k, H.dec, pout, pin, k == PM ? tw.p : nullptr, H.size, h));
        double s = std::chrono::duration<double>(std::chrono::steady_clock::now() - t0).count();
        tr(strf("ONE call with %llu bytes -> %d (%.1f s)", (unsigned long long)H.size, ret, s));
        if (!ok) { if (g_crash.sig == SIGALRM) fail("no-progress", strf("the call with %llu bytes did not return: %s", (unsigned long long)H.size, g_crash.where)); else fail("crash", strf("the call with %llu bytes faulted: signal %d touching %s (offset %lld from the output, %lld from the input)", (unsigned long long)H.size, g_crash.sig, classify_addr((void *)g_crash.addr).c_str(), (long long)((uint8_t *)g_crash.addr - pout), (long long)((uint8_t *)g_crash.addr - pin))); goto done; }
        bool want = is_ctr(k) || H.size % bs == 0;
        if ((ret != 0) != want) { fail("return-value", strf("the call with %llu bytes returned %d", (unsigned long long)H.size, ret)); goto done; }
        if (!want) goto done;
    }
    {
        // reference: block by block through a key schedule
        Skinny128Key_t k128; Skinny64Key_t k64; MantisKey_t km;
        if (kind_fam(k) == 0) skinny128_set_key(&k128, H.key.data(), (unsigned)H.key.size());
        else if (kind_fam(k) == 1) skinny64_set_key(&k64, H.key.data(), (unsigned)H.key.size());
        else mantis_set_key(&km, H.key.data(), 16, H.rounds, H.mode);
        auto E = [&](const uint8_t *x, uint8_t *y, bool dec, const uint8_t *t) {
            if (kind_fam(k) == 0) { if (dec) skinny128_ecb_decrypt(y, x, &k128); else skinny128_ecb_encrypt(y, x, &k128); }
            else if (kind_fam(k) == 1) { if (dec) skinny64_ecb_decrypt(y, x, &k64); else skinny64_ecb_encrypt(y, x, &k64); }
            else { if (t) mantis_ecb_crypt_tweaked(y, x, t, &km); else mantis_ecb_crypt(y, x, &km); }
        };
        uint8_t c0[16] = {0}; if (!H.ctr.empty()) memcpy(c0, H.ctr.data(), bs);
        for (size_t wi = 0; wi < W.size() && F.empty(); ++wi) {
            uint64_t lo = W[wi].first, hi = W[wi].second; const Bytes &src = win_in[wi];
            for (uint64_t off = lo; off < hi && F.empty(); off += bs) {
                unsigned n = (unsigned)std::min<uint64_t>(bs, hi - off); uint8_t e[16], blk[16] = {0};
                if (is_ctr(k)) { uint8_t c[16]; memcpy(c, c0, bs); be_add64(c, bs, off / bs); E(c, e, false, nullptr); for (unsigned i = 0; i < n; ++i) e[i] ^= src[off - lo + i]; }
                else { if (n < bs) break; memcpy(blk, &src[off - lo], bs); E(blk, e, H.dec, k == PM ? tw.p + off : nullptr); }
                *bytes_checked += n;
                if (memcmp(e, pout + off, n) != 0) fail(is_ctr(k) ? "stream-mismatch" : "parallel-mismatch", strf("output at offset %llu (2^31%+lld, 2^32%+lld, end%+lld) of a %llu-byte request differs from the block-by-block reference: got %s expected %s",
                    (unsigned long long)off, (long long)(off - (1ULL << 31)), (long long)(off - (1ULL << 32)), (long long)(off - H.size), (unsigned long long)H.size, hex(pout + off, n).c_str(), hex(e, n).c_str()));
            }
        }
        if (!F.empty()) goto done;
        for (uint64_t i = 0; i < canary_n; ++i) if (pout[H.size + i] != 0xC5) { fail("stray-write", strf("byte %llu past the end of the %llu-byte output was overwritten", (unsigned long long)i, (unsigned long long)H.size)); goto done; }
        // zero input outside the windows gives keystream / E(0): spot-check that nothing was left unwritten (zero) at page granularity
        if (!H.inplace || true) {
            Rng pr(H.wseed ^ 0x77);
            for (int i = 0; i < 4096 && F.empty(); ++i) { uint64_t off = (pr.next() % (H.size / bs)) * bs; bool allz = true; for (unsigned q = 0; q < bs && off + q < H.size; ++q) allz &= pout[off + q] == 0; bool inwin = false; for (auto &w : W) inwin |= off >= w.first && off < w.second; if (allz && !inwin) fail(is_ctr(k) ? "stream-mismatch" : "parallel-mismatch", strf("block at offset %llu of the %llu-byte request was never written (still zero)", (unsigned long long)off, (unsigned long long)H.size)); *bytes_checked += bs; }
        }
        if (!F.empty()) goto done;
        // the stream continues where the huge call stopped
        if (is_ctr(k)) {
            uint8_t small_in[40], small_out[40], e[16]; Rng sr(H.wseed ^ 0x99); sr.fill(small_in, 40);
            ok = GUARDED_CALL(ret = lib_enc(k, small_out, small_in, 40, h));
            if (!ok || ret != 1) { fail("crash", "the call after the huge one failed"); goto done; }
            for (unsigned i = 0; i < 40; ++i) { uint64_t pos = H.size + i; if (i == 0 || pos % bs == 0) { uint8_t c[16]; memcpy(c, c0, bs); be_add64(c, bs, pos / bs); E(c, e, false, nullptr); } if ((uint8_t)(small_in[i] ^ e[pos % bs]) != small_out[i]) { fail("stream-mismatch", strf("the call after the %llu-byte request does not continue the stream (byte %u of it)", (unsigned long long)H.size, i)); break; } }
            *bytes_checked += 40; tr("40 more bytes continue the stream");
        }
    }
done:
    GUARDED_CALL(lib_cleanup(k, h));
    g_heap.end_run(); g_cpu.set(nullptr);
    in.drop(); out.drop(); tw.drop();
    return F;
}

static void write_replay(const std::string &path, const HugeRun &H, uint64_t seed, uint64_t run, const Finding &f, const char *prop) {
    std::ofstream o(path);
    o << "# hugesim replay file: one request of more than 2^31 bytes\nengine hugesim\nprop " << prop << "\nflavour " << FLAVOUR << "\nseed " << seed << "\nrun " << run << "\nexpect " << f.kind << "\nsig " << f.kind << ":" << KIND_NAME[H.kind] << ":huge\n# violation: " << f.msg << "\n";
    o << "huge " << KIND_NAME[H.kind] << " " << H.size << " " << H.cpu << " " << H.inplace << " " << H.dec << " " << H.rounds << " " << H.mode << " " << H.wseed << " " << hex(H.key) << " " << (H.ctr.empty() ? "-" : hex(H.ctr)) << "\n";
}
static bool read_replay(const std::string &path, HugeRun &H, std::string &prop) {
    std::ifstream f(path); if (!f) return false; std::string ln; bool got = false;
    while (std::getline(f, ln)) {
        if (ln.empty() || ln[0] == '#') continue; std::istringstream is(ln); std::string t; is >> t;
        if (t == "prop") is >> prop;
        else if (t == "huge") { std::string kn, key, ctr; int ip, dec; is >> kn >> H.size >> H.cpu >> ip >> dec >> H.rounds >> H.mode >> H.wseed >> key >> ctr; H.inplace = ip; H.dec = dec; for (int i = 0; i < NKINDS; ++i) if (kn == KIND_NAME[i]) H.kind = i; H.key = unhex(key); if (ctr != "-") H.ctr = unhex(ctr); got = true; }
    }
    return got;
}

int main(int argc, char **argv) {
    disable_aslr_and_reexec(argv);
    std::string out, replay, tier = "quick", outdir = "/verif/build/out", replaydir = "/verif/replays", prop = "C05"; uint64_t seed = 1, runs = 0, first = 0; int nw = 6; std::string kinds = "all";
    for (int i = 1; i < argc; ++i) {
        std::string a = argv[i]; auto nxt = [&]() { return i + 1 < argc ? std::string(argv[++i]) : std::string(); };
        if (a == "--seed") seed = strtoull(nxt().c_str(), 0, 10); else if (a == "--runs") runs = strtoull(nxt().c_str(), 0, 10); else if (a == "--first") first = strtoull(nxt().c_str(), 0, 10);
        else if (a == "--workers") nw = atoi(nxt().c_str()); else if (a == "--out") out = nxt(); else if (a == "--replay") replay = nxt(); else if (a == "--tier") tier = nxt(); else if (a == "--outdir") outdir = nxt(); else if (a == "--replaydir") replaydir = nxt();
        else if (a == "--prop") prop = nxt(); else if (a == "--kinds") kinds = nxt();
    }
    { static char fl[128]; char exe[512]; ssize_t n = readlink("/proc/self/exe", exe, sizeof exe - 1); if (n > 0) { exe[n] = 0; std::string d = exe; d = d.substr(0, d.rfind('/')); d = d.substr(d.rfind('/') + 1); snprintf(fl, sizeof fl, "%s", d.c_str()); FLAVOUR = fl; } }
    seams_init();
    install_watchdog(600);          // a 4 GiB request through the scalar code at -O0 takes minutes of CPU time legitimately
    if (!replay.empty()) {
        HugeRun H; std::string p; if (!read_replay(replay, H, p)) { fprintf(stderr, "cannot read %s\n", replay.c_str()); return 2; }
        std::vector<std::string> tr; uint64_t bc = 0; printf("%s\n", run_str(H).c_str()); auto F = evaluate(H, &tr, &bc);
        for (auto &l : tr) printf("%s\n", l.c_str());
        if (F.empty()) { printf("REPLAY-CLEAN property=%s file=%s\n", p.c_str(), replay.c_str()); return 0; }
        for (auto &f : F) printf("REPLAY-VIOLATION property=%s inv=%s\n    %s\n", p.c_str(), f.kind.c_str(), f.msg.c_str());
        printf("VIOLATION property=%s replay=%s\n", p.c_str(), replay.c_str()); return 1;
    }
    if (!runs) runs = tier == "thorough" ? 36 : 6;
    if (system(("mkdir -p " + outdir + " " + replaydir).c_str())) {}
    auto t0 = std::chrono::steady_clock::now();
    uint64_t nruns = 0, bytes = 0, checked = 0; std::set<uint64_t> cover;
    // which runs belong to this property: C05 the CTR kinds, C07 the parallel kinds
    auto mine = [&](uint64_t i) { int k = HK[i % 6]; return kinds == "all" || (kinds == "ctr" && is_ctr(k)) || (kinds == "par" && is_par(k)); };
    PoolResult pr = run_pool(nw, first, runs, outdir + "/HUGE-" + std::to_string(getpid()),
        [&](uint64_t i, FILE *f) {
            if (!mine(i)) return;
            HugeRun H = make_run(seed, i, tier); uint64_t bc = 0; auto F = evaluate(H, nullptr, &bc); ++nruns; bytes += H.size; checked += bc;
            cover.insert(hash_comb((uint64_t)H.kind << 8 | H.cpu << 4 | H.inplace << 1 | H.dec, H.size >> 31));
            if (!F.empty()) { if (F[0].kind == "harness") { fprintf(stderr, "hugesim: %s\n", F[0].msg.c_str()); _exit(2); } std::string m = F[0].msg; for (char &c : m) if (c == '\t' || c == '\n') c = ' '; fprintf(f, "V %llu\t%s\t%s:%s:huge\t%s\n", (unsigned long long)i, F[0].kind.c_str(), F[0].kind.c_str(), KIND_NAME[H.kind], m.c_str()); fflush(f); }
            fprintf(f, "X run %llu: %s\n", (unsigned long long)i, run_str(H).c_str());
        },
        [&](FILE *f) { fprintf(f, "S runs %llu\nS bytes_in_huge_requests %llu\nS bytes_compared_with_reference %llu\nS cpu_traps %llu\n", (unsigned long long)nruns, (unsigned long long)bytes, (unsigned long long)checked, (unsigned long long)g_cpu.n_traps); for (uint64_t h : cover) fprintf(f, "H %016llx\n", (unsigned long long)h); });
    double wall = std::chrono::duration<double>(std::chrono::steady_clock::now() - t0).count();
    std::map<std::string, uint64_t> stats; std::set<std::string> hashes; std::vector<std::string> samples;
    struct RawV { uint64_t run; std::string kind, sig, msg; }; std::vector<RawV> raws;
    for (auto &ln : pr.lines) {
        if (ln.size() < 2) continue;
        if (ln[0] == 'S') { char k[64]; unsigned long long v; if (sscanf(ln.c_str(), "S %63s %llu", k, &v) == 2) stats[k] += v; }
        else if (ln[0] == 'H') hashes.insert(ln.substr(2)); else if (ln[0] == 'X') { if (samples.size() < 4) samples.push_back(ln.substr(2)); }
        else if (ln[0] == 'V') { std::vector<std::string> parts; size_t pos = 2; while (true) { size_t t = ln.find('\t', pos); if (t == std::string::npos) { parts.push_back(ln.substr(pos)); break; } parts.push_back(ln.substr(pos, t - pos)); pos = t + 1; } if (parts.size() >= 4) raws.push_back({strtoull(parts[0].c_str(), 0, 10), parts[1], parts[2], parts[3]}); }
    }
    for (auto &d : pr.deaths) { if (WIFEXITED(d.second) && WEXITSTATUS(d.second) == 2) return 2;
        // SIGKILL is nothing library code can raise: the kernel's OOM killer took the worker (multi-GiB buffers) - a harness error, never a verdict
        if (WIFSIGNALED(d.second) && WTERMSIG(d.second) == SIGKILL) { fprintf(stderr, "hugesim: worker killed in run %llu (out of memory?)\n", (unsigned long long)d.first); return 2; } raws.push_back({d.first, "worker-death", "worker-death", strf("worker died with status 0x%x", d.second)}); }
    std::sort(raws.begin(), raws.end(), [](const RawV &a, const RawV &b) { return a.run < b.run; });
    std::map<std::string, uint64_t> sigc; for (auto &r : raws) ++sigc[r.sig];
    std::string vj; std::set<std::string> seen; int nfinal = 0, nondet = 0;
    for (auto &rv : raws) {
        if (seen.count(rv.sig) || nfinal >= 3) continue; seen.insert(rv.sig);
        HugeRun H = make_run(seed, rv.run, tier);
        std::string path = strf("%s/%s-huge-%s-%llu-%llu.replay", replaydir.c_str(), prop.c_str(), FLAVOUR, (unsigned long long)seed, (unsigned long long)rv.run);
        write_replay(path, H, seed, rv.run, Finding{rv.kind, rv.msg}, prop.c_str());
        // gate: the replay file reproduces in a fresh process (the history is already minimal: one huge call)
        fflush(stdout); pid_t pid = fork(); if (pid == 0) { int fd = open("/dev/null", 1); if (fd >= 0) dup2(fd, 1); execl("/proc/self/exe", "hugesim", "--replay", path.c_str(), (char *)0); _exit(3); }
        int st = 0; waitpid(pid, &st, 0); bool rep = rv.kind == "worker-death" ? !(WIFEXITED(st) && WEXITSTATUS(st) == 0) : (WIFEXITED(st) && WEXITSTATUS(st) == 1);
        if (!rep) { fprintf(stderr, "hugesim: replay %s did not reproduce\n", path.c_str()); ++nondet; continue; }
        std::string tj = "[" + jstr(run_str(H)) + "," + jstr("!! " + rv.msg) + "]";
        vj += strf("%s    {\"inv\": %s, \"sig\": %s, \"run\": %llu, \"op\": 3, \"msg\": %s, \"replay\": %s, \"ops_before\": 4, \"ops_after\": 4, \"trials\": 0, \"reproduced_in_fresh_process\": true, \"occurrences\": %llu, \"trace\": %s}",
                   nfinal ? ",\n" : "", jstr(rv.kind).c_str(), jstr(rv.sig).c_str(), (unsigned long long)rv.run, jstr(rv.msg).c_str(), jstr(path).c_str(), (unsigned long long)sigc[rv.sig], tj.c_str());
        ++nfinal;
    }
    std::string j = "{\n";
    j += strf("  \"property\": %s, \"flavour\": %s, \"tier\": %s, \"seed\": %llu, \"first_run\": %llu, \"runs_requested\": %llu, \"workers\": %d, \"wall_s\": %.3f,\n", jstr(prop).c_str(), jstr(FLAVOUR).c_str(), jstr(tier).c_str(), (unsigned long long)seed, (unsigned long long)first, (unsigned long long)runs, nw, wall);
    j += "  \"stats\": {"; { bool f1 = true; for (auto &kv : stats) { j += strf("%s\"%s\": %llu", f1 ? "" : ", ", kv.first.c_str(), (unsigned long long)kv.second); f1 = false; } } j += "},\n  \"probes\": {},\n";
    j += "  \"transition_hashes\": ["; { bool f1 = true; for (auto &h : hashes) { j += (f1 ? "" : ",") + jstr(h); f1 = false; } } j += "],\n";
    j += "  \"samples\": ["; for (size_t i = 0; i < samples.size(); ++i) j += (i ? "," : "") + jstr(samples[i]); j += "],\n";
    j += strf("  \"raw_violations\": %zu, \"harness_nondeterminism\": %d,\n  \"violations\": [\n%s\n  ]\n}\n", raws.size(), nondet, vj.c_str());
    if (!out.empty()) { std::ofstream f(out); f << j; } else fputs(j.c_str(), stdout);
    if (nondet && !nfinal) return 2;
    return nfinal ? 1 : 0;
}
