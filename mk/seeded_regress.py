#!/usr/bin/env python3
"""Regression over the stored seeded changes: each must still be caught by the check recorded as catching it.
usage: mk/seeded_regress.py [-jN] [name-prefix...]   -> prints one line per change; exit 1 if any is no longer caught."""
import os, sys, json, glob, re, subprocess, concurrent.futures
V = os.path.dirname(os.path.dirname(os.path.abspath(__file__)))
args = sys.argv[1:]
jobs = 1
if args and args[0].startswith("-j"):
    jobs = int(args[0][2:] or 2); args = args[1:]


def one(mp):
    d = json.load(open(mp)); name = d["name"]
    owner = d["breaks_property"] if d["breaks_property"] in d["caught_by"] else sorted(d["caught_by"])[0]
    p = subprocess.run([os.path.join(V, "mk", "try_patch.sh"), os.path.join(os.path.dirname(mp), "patch.diff"), owner], capture_output=True, text=True, env=dict(os.environ, LINES_MAX="2"))
    sigs = re.findall(r"^---- C\d+ violated: (\S+)", p.stdout, re.M)
    harness = "HARNESS" in p.stdout
    ok = bool(sigs) and not harness
    return name, ok, owner, (sigs[0] if sigs else ("(harness error)" if harness else ""))


metas = [mp for mp in sorted(glob.glob(os.path.join(V, "seeded", "*", "meta.json")))
         if not args or any(os.path.basename(os.path.dirname(mp)).startswith(p) for p in args)]
bad = 0
with concurrent.futures.ThreadPoolExecutor(max_workers=jobs) as ex:
    for name, ok, owner, sig in ex.map(one, metas):
        bad += 0 if ok else 1
        print("%-10s %s by %s %s" % (name, "caught" if ok else "NOT-CAUGHT", owner, sig), flush=True)
print("seeded regression: %d not caught" % bad)
sys.exit(1 if bad else 0)
