"""Per-property check definitions and the driver logic behind ./check."""
import os, sys, json, subprocess, time, fcntl, re, hashlib

DEFAULT_SEED = {"quick": 20261003, "thorough": 20261004}


class Ctx:
    def __init__(self, V, repo, B, pid, tier, seed):
        self.V, self.repo, self.B, self.pid, self.tier = V, repo, B, pid, tier
        self.seed = seed if seed else DEFAULT_SEED.get(tier, 1)
        self.t0 = time.time()
        self.notes = []
        self.evidence_dir = os.environ.get("VERIF_EVIDENCE", os.path.join(V, "evidence"))
        self.replay_dir = os.environ.get("VERIF_REPLAYS", os.path.join(V, "replays"))


# ----------------------------------------------------------------------------- builds
class BuildLock:
    def __init__(self, B):
        self.path = os.path.join(B, ".lock")

    def __enter__(self):
        self.f = open(self.path, "w")
        fcntl.flock(self.f, fcntl.LOCK_EX)

    def __exit__(self, *a):
        fcntl.flock(self.f, fcntl.LOCK_UN)
        self.f.close()


# flavours that are a base flavour plus SKINNY_VERIF hook switches (so that a replay file can name them)
FLAVOUR_SPECS = {
    "plain_mk256off": ("plain", (), ("VEC256_CFLAGS=",)),          # the 256-bit back end compiled out the way options.mak documents
    "plain_nosimd": ("plain", ("SKINNY_VERIF", "SKINNY_VERIF_VEC128_MATH=0", "SKINNY_VERIF_VEC256_MATH=0"), ()),
    "plain_w32": ("plain", ("SKINNY_VERIF", "SKINNY_VERIF_64BIT=0"), ()),
    "tsanhook_w32": ("tsanhook", ("SKINNY_VERIF", "SKINNY_VERIF_64BIT=0"), ()),               # thrsim on the 32-bit-word code paths                     # 32-bit words, SIMD back ends as shipped
    "cthook_w32": ("cthook", ("SKINNY_VERIF", "SKINNY_VERIF_64BIT=0"), ()),
    "cthook_w32_u0_nosimd": ("cthook", ("SKINNY_VERIF", "SKINNY_VERIF_64BIT=0", "SKINNY_VERIF_UNALIGNED=0", "SKINNY_VERIF_VEC128_MATH=0", "SKINNY_VERIF_VEC256_MATH=0"), ()),
    "cthook_neutral": ("cthook", ("SKINNY_VERIF", "SKINNY_VERIF_LITTLE_ENDIAN=0", "SKINNY_VERIF_VEC128_MATH=0", "SKINNY_VERIF_VEC256_MATH=0"), ()),
}


def build_flavour(ctx, flavour, targets=("objsim",), base=None, defs=(), makevars=()):
    """library objects of this flavour from the repo's working tree + the harness linked against them.
    `flavour` names the output directory; `base` (default: the same) is the buildlib flavour, `defs` extra -D switches (SKINNY_VERIF hook)."""
    if base is None and flavour in FLAVOUR_SPECS:
        base, defs, makevars = FLAVOUR_SPECS[flavour]
    with BuildLock(ctx.B):
        libdir = os.path.join(ctx.B, flavour, "lib")
        cmd = [sys.executable, os.path.join(ctx.V, "mk", "buildlib.py"), base or flavour, libdir, "--repo", ctx.repo]
        for d in defs:
            cmd += ["--def", d]
        for mv in makevars:
            cmd += ["--makevar", mv]
        p = subprocess.run(cmd, capture_output=True, text=True)
        if p.returncode != 0:
            sys.stderr.write(p.stdout + p.stderr)
            raise SystemExit(2)
        p = subprocess.run(["make", "-C", os.path.join(ctx.V, "sim"), "FLAVOUR=" + flavour, "REPO=" + ctx.repo, "B=" + ctx.B, "LINKSAN=%d" % (flavour == "asan"), "-j16"] + list(targets),
                           capture_output=True, text=True)
        if p.returncode != 0:
            sys.stderr.write(p.stdout[-4000:] + p.stderr[-8000:])
            raise SystemExit(2)
    return os.path.join(ctx.B, flavour)


# ----------------------------------------------------------------------------- known findings
def load_known(ctx):
    known, fixed = [], []
    path = os.path.join(ctx.V, "known_findings.txt")
    if os.path.exists(path):
        for ln in open(path):
            ln = ln.strip()
            if ln.startswith("known:"):
                m = re.match(r"known:\s+property=(\S+)\s+sig=(\S+)\s+(.*)", ln)
                if m:
                    known.append({"property": m.group(1), "sig": m.group(2), "what": m.group(3)})
            elif ln.startswith("fixed:"):
                fixed.append(ln)
    return known, fixed


# ----------------------------------------------------------------------------- objsim-based checks
# runs: (quick, thorough) for the plain flavour; other flavours take a fraction
OBJSIM = {
    "C03": dict(runs=(200000, 6000000), flavours=[("plain", 1.0, 0), ("asan", 0.2, 1)], level="exploration"),
    "C04": dict(runs=(120000, 4000000), flavours=[("plain", 1.0, 0), ("asan", 0.2, 1), ("o0", 0.3, 2)], level="exploration"),
    "C05": dict(runs=(160000, 5000000), flavours=[("plain", 1.0, 0), ("asan", 0.2, 1)], level="exploration"),
    "C06": dict(runs=(80000, 2500000), flavours=[("plain", 1.0, 0), ("asan", 0.2, 1)], level="exploration"),
    "C07": dict(runs=(100000, 2000000), flavours=[("plain", 1.0, 0), ("asan", 0.25, 1)], level="exploration"),
    "C09": dict(runs=(100000, 3000000), flavours=[("plain", 0.7, 0), ("asan", 0.5, 1)], level="exploration"),
    "C10": dict(runs=(100000, 2500000), flavours=[("plain", 1.0, 0), ("o0", 1.0, 0), ("asan", 0.3, 0)], level="exploration"),
    "C11": dict(runs=(40000, 1200000), flavours=[("plain", 1.0, 0), ("o0", 1.0, 0), ("asan", 1.0, 0)], level="exploration", digests=True),
    "C13": dict(runs=(0, 0), flavours=[("plain", 1.0, 0), ("o0", 1.0, 0), ("plain_mk256off", 1.0, 0), ("plain_nosimd", 1.0, 0), ("plain_w32", 1.0, 0)], level="fault_enumeration"),
    "C14": dict(runs=(100000, 3000000), flavours=[("plain", 1.0, 0), ("asan", 0.25, 1)], level="exploration"),
    "C15": dict(runs=(150000, 4000000), flavours=[("plain", 1.0, 0), ("asan", 0.25, 1)], level="exploration"),
    "C16": dict(runs=(40000, 600000), flavours=[("plain", 1.0, 0), ("asan", 0.25, 0), ("o0", 0.5, 0)], level="fault_enumeration"),
    "C17": dict(runs=(150000, 4000000), flavours=[("plain", 1.0, 0), ("asan", 0.25, 1)], level="exploration"),
}

RULES = {
    "C03": "seeded histories (Mantis set_key/set_tweak/swap_modes/crypt; Skinny single-block; parallel ECB on every back end, 0-40 blocks); every block/parallel call is followed by the inverse call through the library; a case is distinct+non-trivial per (object kind, back end, operation, object state, size class) actually executed against the library",
    "C04": "seeded tweak histories (0-50 changes; values random/repeated/zero/one-bit-away/NULL/short) on tweaked key schedules and through the CTR tweak API on every back end; after each change the schedule is compared field-wise with one keyed afresh with only the latest tweak, and every block with the specification model (TK1=tweak); distinct+non-trivial per (kind, back end, op, state, size class)",
    "C05": "seeded CTR streams per cipher x back end: key/tweak set, counter default/short/NULL/carry-chain/wrap, 1-40 fragments biased to block and SIMD-batch boundaries, several packets per object, random buffer placement, in place or not; every fourth run is the packet protocol of doc/using.dox (sequence number in the counter or in the tweak) between a sender and a receiver object on independently drawn hosts over a transport that drops, duplicates and reorders packets, the receiver being fed the sender's actual ciphertext in its own fragmentation and required to restore the plaintext; output compared byte for byte with input xor E(c+i) computed with the scalar single-block function; distinct+non-trivial per (kind, back end, op, state incl. buffered-keystream class, size class)",
    "C06": "one seeded free history (incl. re-keying and tweak changes inside a batch, invalid calls, cleanup/re-init) executed on 2-3 simulated hosts whose CPU models select different back ends; every return value and output byte compared across hosts; distinct+non-trivial per (kind, back end, op, state, size class)",
    "C07": "parallel-ECB objects of the three ciphers on every simulated host; block counts enumerated 0..3*batch+3 by run index plus random follow-ups; every block compared with the scalar single-block function on a separately keyed schedule; distinct+non-trivial per (kind, back end, op, state, size class)",
    "C09": "every public function with buffer arguments; each pointer placed independently: end-flush or start-flush against a PROT_NONE page or at alignment 0-63 inside a verified junk slab; single-block output = input + d, d in -(bs-1)..(bs-1); bulk calls in place; result compared with the model computed from a private copy of the input",
    "C10": "every key-setting entry point x every length 0..3*bs+16 plus huge values (enumerated by run index), key buffer end-flush against an inaccessible page, dirtied stack, object already holding another schedule; accepted <=> documented range; accepted => field-wise equal to the zero-padded primary-size key and same ciphertexts; rejected => 0 and object bit-for-bit untouched",
    "C11": "mixed workloads of C03-C10/C14/C15 executed twice per seed in two worlds that differ only in stack, heap and caller-memory garbage; all return values, outputs and used key-schedule fields compared; digests of the same seeds compared across the plain (-O3), -O0 and clang/ASan builds",
    "C13": "CPU-model grid (max leaf x SSE2 x AVX2 x OSXSAVE x XCR0 x other leaf-7 sub-leaves x out-of-range policy x leaf-1 ECX) x six init functions, three inits per cell in different junk register/stack contexts; selected back end compared with the widest one the model supports",
    "C14": "seeded valid histories on every object kind and back end with invalid calls (NULL object/key, bad key/tweak/counter length, bad Mantis rounds, partial block count, NULL data, calls on zeroed/cleaned objects) injected anywhere; each must return 0 and leave handle, context and output untouched; the whole history is re-executed without them and must give identical results",
    "C15": "1-5 objects of mixed kinds/back ends, histories of init/key/tweak/counter/process/cleanup/cleanup-again/cleanup(NULL)/zeroed handle/use-after-cleanup/re-init up to 60 ops; SimHeap ledger: each block freed exactly once with the pointer the allocator returned, nothing touched after free (cells are made inaccessible), empty heap after final cleanup",
    "C16": "init function x back end x failing allocation index x class of prior handle content (junk, zeros, 0xFF, pointers to a live caller block, pointers into a guard page, bytes of a cleaned-up handle), enumerated by run index; then a seeded tail of cleanup / other calls / re-init",
    "C17": "C15's histories weighted towards cleanup in rich states; at every free() from library code SimHeap scans the whole block for non-zero bytes, and after every cleanup of a live object no block it owned may survive with content; non-trivial = freed block that had held non-zero data",
}


# reach probes that must not stay at zero in a clean run (a probe stuck at zero means the workload or fault mix must change)
EXPECT_PROBES = {
    "C03": ["rtrip.block", "rtrip.parallel", "tweak.null"],
    "C04": ["tweak.null", "tweak.short", "tweak.same-value-again", "tweak-change.inside-batch", "counter.null"],
    "C05": ["packet.fragment-delivered", "ctr.carry>=2", "ctr.carry>=half", "ctr.wrap", "ctr.wrap-inside-simd-batch", "counter.short", "counter.null", "counter.length-0", "frag.ends-on-batch-boundary",
            "frag.ends-one-before-batch-boundary", "frag.ends-one-after-batch-boundary", "frag.zero-length.buffer-empty", "frag.zero-length.buffer-half-used", "counter.set-with-keystream-left", "frag.in-place"],
    "C06": ["rekey.inside-batch.whole-blocks-consumed", "rekey.inside-batch.inside-a-block", "rekey.at-batch-boundary", "tweak-change.inside-batch"],
    "C10": ["key.partial-length"],
    "C17": ["heap.freed-block-had-data"],
}


def run_objsim(ctx, flavour, prop, runs, first, known_sigs, extra=(), build=True):
    d = build_flavour(ctx, flavour) if build else os.path.join(ctx.B, flavour)
    out = os.path.join(ctx.B, "out", "%s-%s-%d.json" % (prop, flavour, os.getpid()))
    os.makedirs(os.path.dirname(out), exist_ok=True)
    cmd = [os.path.join(d, "objsim"), "--prop", prop, "--tier", ctx.tier, "--seed", str(ctx.seed), "--out", out,
           "--outdir", os.path.join(ctx.B, "out"), "--workers", "16", "--replaydir", ctx.replay_dir]
    if runs:
        cmd += ["--runs", str(int(runs)), "--first", str(int(first))]
    if known_sigs:
        cmd += ["--known", ",".join(known_sigs)]
    cmd += list(extra)
    p = subprocess.run(cmd, capture_output=True, text=True)
    if p.returncode not in (0, 1):
        sys.stderr.write(p.stdout[-3000:] + p.stderr[-6000:])
        print("HARNESS-ERROR property=%s flavour=%s exit=%d" % (prop, flavour, p.returncode))
        raise SystemExit(2)
    res = json.load(open(out))
    os.unlink(out)
    res["_stderr"] = p.stderr[-2000:]
    return res


# hugesim: (flavour, runs in quick, runs in thorough); a run index maps to kind = index % 6, so only half of them belong to a property
HUGE = {
    "C05": dict(kinds="ctr", flavours=[("plain", 6, 24), ("plain_clang", 0, 12)]),
    "C07": dict(kinds="par", flavours=[("plain", 6, 24), ("plain_clang", 0, 12)]),
}


def mem_available_gib():
    """memory this process may still use: MemAvailable of the host, capped by the cgroup limit (minus its usage) if there is one"""
    avail = 0.0
    try:
        for ln in open("/proc/meminfo"):
            if ln.startswith("MemAvailable:"):
                avail = int(ln.split()[1]) / (1 << 20)
    except OSError:
        return 0.0
    try:
        cg = "/sys/fs/cgroup"
        rel = ""
        for ln in open("/proc/self/cgroup"):
            t = ln.strip().split(":", 2)
            if len(t) == 3 and t[0] == "0":
                rel = t[2]
        d = os.path.join(cg, rel.lstrip("/"))
        while True:     # the tightest limit on the way up to the root
            mx = os.path.join(d, "memory.max")
            if os.path.exists(mx):
                v = open(mx).read().strip()
                if v != "max":
                    used = int(open(os.path.join(d, "memory.current")).read().strip()) if os.path.exists(os.path.join(d, "memory.current")) else 0
                    avail = min(avail, (int(v) - used) / (1 << 30))
            if os.path.realpath(d) == os.path.realpath(cg):
                break
            d = os.path.dirname(d)
        # cgroup v1: the memory controller's own hierarchy
        for ln in open("/proc/self/cgroup"):
            t = ln.strip().split(":", 2)
            if len(t) == 3 and "memory" in t[1].split(","):
                d = os.path.join(cg, "memory", t[2].lstrip("/"))
                while True:
                    lim = os.path.join(d, "memory.limit_in_bytes")
                    if os.path.exists(lim):
                        v = int(open(lim).read().strip())
                        if v < (1 << 60):
                            use = os.path.join(d, "memory.usage_in_bytes")
                            used = int(open(use).read().strip()) if os.path.exists(use) else 0
                            avail = min(avail, (v - used) / (1 << 30))
                    if os.path.realpath(d) == os.path.realpath(os.path.join(cg, "memory")):
                        break
                    d = os.path.dirname(d)
    except (OSError, ValueError):
        pass
    return avail


def run_hugesim(ctx, flavour, prop, kinds, runs):
    # every run dirties an output buffer of up to 2 GiB (quick) / 4 GiB (thorough): the worker count follows the memory that
    # is actually available, and without room for a single one the huge requests are skipped (recorded, not a verdict)
    per = 2.3 if ctx.tier == "quick" else 4.5
    want = 3 if ctx.tier == "quick" else 8
    workers = min(want, int((mem_available_gib() - 3.0) / per))
    if workers < 1:
        ctx.notes.append("hugesim skipped on %s: only %.1f GiB of memory available" % (flavour, mem_available_gib()))
        return {"stats": {"runs": 0}, "violations": [], "wall_s": 0.0, "samples": [], "probes": {}, "transition_hashes": [], "raw_violations": 0}
    d = build_flavour(ctx, flavour, targets=("hugesim",))
    out = os.path.join(ctx.B, "out", "%s-huge-%s-%d.json" % (prop, flavour, os.getpid()))
    os.makedirs(os.path.dirname(out), exist_ok=True)
    cmd = [os.path.join(d, "hugesim"), "--prop", prop, "--kinds", kinds, "--tier", ctx.tier, "--seed", str(ctx.seed), "--runs", str(runs), "--first", "0",
           "--workers", str(workers), "--out", out, "--outdir", os.path.join(ctx.B, "out"), "--replaydir", ctx.replay_dir]
    p = subprocess.run(cmd, capture_output=True, text=True)
    if p.returncode not in (0, 1):
        sys.stderr.write(p.stdout[-3000:] + p.stderr[-6000:])
        print("HARNESS-ERROR property=%s engine=hugesim flavour=%s exit=%d" % (prop, flavour, p.returncode))
        raise SystemExit(2)
    res = json.load(open(out))
    os.unlink(out)
    return res


ISA_BEYOND = re.compile(r"^-m(sse3|ssse3|sse4(\.[12]|a)?|avx$|avx512\w*|avxvnni|fma4?|f16c|xop|bmi2?|popcnt|lzcnt|abm|aes|vaes|pclmul|vpclmulqdq|sha|gfni|movbe|adx|tbm)$|^-march=(?!x86-64$)")


def isa_flags_beyond_the_probes(ctx):
    import importlib.util
    spec = importlib.util.spec_from_file_location("buildlib", os.path.join(ctx.V, "mk", "buildlib.py"))
    bl = importlib.util.module_from_spec(spec); spec.loader.exec_module(bl)
    bad = []
    for src, obj, flags in bl.repo_compile_lines(ctx.repo):
        for f in flags:
            if ISA_BEYOND.search(f):
                bad.append((src, f))
    return bad


def check_objsim(ctx):
    spec = OBJSIM[ctx.pid]
    known, fixed = load_known(ctx)
    known_here = [k for k in known if k["property"] == ctx.pid]
    known_sigs = [k["sig"] for k in known_here]
    base = spec["runs"][0 if ctx.tier == "quick" else 1]
    results = []
    for flavour, frac, shift in spec["flavours"]:
        runs = int(base * frac)
        first = shift * base if not spec.get("digests") else 0
        extra = ["--digests"] if spec.get("digests") else []
        results.append((flavour, run_objsim(ctx, flavour, ctx.pid, runs, first, known_sigs, extra)))
    # single requests of more than 2^31 / 2^32 bytes (hugesim): CTR kinds under C05, parallel kinds under C07
    if ctx.pid in HUGE:
        for flavour, nq, nt in HUGE[ctx.pid]["flavours"]:
            n = nq if ctx.tier == "quick" else nt
            if n:
                results.append((flavour + "+huge", run_hugesim(ctx, flavour, ctx.pid, HUGE[ctx.pid]["kinds"], n)))
    violations, findings = [], []
    for flavour, r in results:
        for v in r["violations"]:
            v["flavour"] = flavour
            hit = [k for k in known_here if k["sig"] == v["sig"]]
            (findings if hit else violations).append((v, hit[0] if hit else None))
    # cross-flavour digest comparison (C11)
    if spec.get("digests"):
        ref_f, ref = results[0]
        for flavour, r in results[1:]:
            common = sorted(set(ref["digests"]) & set(r["digests"]), key=int)
            bad = [k for k in common if ref["digests"][k] != r["digests"][k]]
            ctx.notes.append("digests compared %s vs %s: %d seeds, %d differ" % (ref_f, flavour, len(common), len(bad)))
            if bad:
                path = os.path.join(ctx.replay_dir, "%s-digest-%s-vs-%s-%d-%s.replay" % (ctx.pid, ref_f, flavour, ctx.seed, bad[0]))
                with open(path, "w") as f:
                    f.write("# cross-build digest mismatch: run %s of seed %d gives %s on %s and %s on %s\n" % (bad[0], ctx.seed, ref["digests"][bad[0]], ref_f, r["digests"][bad[0]], flavour))
                    f.write("prop %s\nflavour %s\nseed %d\nrun %s\nexpect cross-build-digest\nsig cross-build-digest:%s-vs-%s\nregen 1\n" % (ctx.pid, flavour, ctx.seed, bad[0], ref_f, flavour))
                v = {"inv": "cross-build-digest", "sig": "cross-build-digest:%s-vs-%s" % (ref_f, flavour), "run": int(bad[0]), "op": -1,
                     "msg": "%d of %d seeds give different API-visible results on the %s and %s builds (first: run %s)" % (len(bad), len(common), ref_f, flavour, bad[0]),
                     "replay": path, "flavour": flavour, "trace": [], "ops_before": 0, "ops_after": 0, "occurrences": len(bad)}
                hit = [k for k in known_here if k["sig"] == v["sig"]]
                (findings if hit else violations).append((v, hit[0] if hit else None))
    extra = {}
    if ctx.pid == "C13":
        # validity guard of the CPU simulation: the models know SSE2, AVX, AVX2 and the OS state bits, which is exactly what the
        # probes test.  If the repository's own flags compile library code for a further instruction-set extension, no model (and
        # not this host, which has them all) can show that such code is never run on a CPU without it: that IS the property failing.
        bad = isa_flags_beyond_the_probes(ctx)
        if bad:
            path = os.path.join(ctx.replay_dir, "C13-isa-flags-%d.replay" % ctx.seed)
            os.makedirs(ctx.replay_dir, exist_ok=True)
            with open(path, "w") as f:
                f.write("# the repository's build flags enable instruction sets that the run-time probes do not check\nprop C13\nflavour plain\nseed %d\nexpect isa-beyond-probe\nsig isa-beyond-probe:%s\nregen isa\n" % (ctx.seed, bad[0][1]))
                for src, flag in bad:
                    f.write("# %s is compiled with %s\n" % (src, flag))
            v = {"inv": "isa-beyond-probe", "sig": "isa-beyond-probe:" + bad[0][1], "run": 0, "op": -1, "flavour": "plain", "replay": path, "ops_before": 0, "ops_after": 0, "occurrences": len(bad),
                 "msg": "%s is compiled with %s (and %d more): a back end selected on the strength of the SSE2/AVX2 probes may then execute instructions the CPU lacks; the probes test nothing of the kind" % (bad[0][0], bad[0][1], len(bad) - 1),
                 "trace": ["%s: %s" % b for b in bad[:20]]}
            hit = [k for k in known_here if k["sig"] == v["sig"]]
            (findings if hit else violations).append((v, hit[0] if hit else None))
    if ctx.pid == "C16":
        extra = {"exhaustive": True, "exhaustive_space": "init function (6) x CPU model selecting the back end (3) x allocation fault (first request, second request, memory exhausted from the first request on) x prior handle content class (7, incl. the byte image of another live object) = 378 cells, each enumerated many times; the tail of calls after the failed init is sampled"}
    if ctx.pid == "C13":
        extra = {"exhaustive": ctx.tier == "thorough", "exhaustive_space": "CPU-model grid (max leaf 7 x feature set 5 x OSXSAVE 2 x XCR0 4 x other sub-leaves 2 x out-of-range policy 2 x leaf-1 ECX 2 = 2240 models; unrelated leaves (2, 4, 5, 6, 0xA, 0xB, 0xD) answer with the values of real parts) x 6 init functions; quick enumerates a seeded third, thorough all of it; junk register/stack contexts are sampled (3 per cell)"}
    if ctx.pid == "C10":
        extra = {"exhaustive_dimensions": "key lengths 0..3*bs+16 and six huge values are enumerated for each of the 15 key-setting entry points; key bytes, placement and prior object state are sampled"}
    if ctx.pid == "C07":
        extra = {"exhaustive_dimensions": "block counts 0..3*batch+3 are enumerated for each parallel object kind x simulated host; data, keys and follow-up calls are sampled"}
    return finish(ctx, spec["level"], RULES[ctx.pid], results, violations, findings, extra_cov=extra)


def finish(ctx, level, rule, results, violations, findings, extra_cov=None, assumptions=None):
    wall = time.time() - ctx.t0
    evaluations = sum(r["stats"].get("runs", 0) for _, r in results)
    hashes = set()
    for _, r in results:
        hashes.update(r.get("transition_hashes", []))
    probes, stats = {}, {}
    for fl, r in results:
        for k, v in r.get("probes", {}).items():
            probes[k] = probes.get(k, 0) + v
        for k, v in r.get("stats", {}).items():
            stats[k] = stats.get(k, 0) + v
    samples = []
    for fl, r in results:
        for s in r.get("samples", [])[:3]:
            samples.append("[%s] %s" % (fl, s))
    for v, k in (violations + findings)[:4]:
        samples.append({"violation": v["sig"], "minimised_history": v.get("trace", [])[:40]})
    zero = [p for p in EXPECT_PROBES.get(ctx.pid, []) if not probes.get(p)]
    for p in zero:
        print("WARNING: reach probe '%s' stayed at zero in this run" % p)
    cov = {
        "evaluations": int(evaluations),
        "probes_stuck_at_zero": zero,
        "distinct_nontrivial": len(hashes),
        "rule": rule,
        "samples": samples[:10] if samples else ["(no sample recorded)"],
        "simulated_runs_per_hour": int(evaluations / wall * 3600) if wall > 0 else 0,
        "simulated_time": "no clock in the library: %d operations, %d library calls, %d executions" % (stats.get("ops", 0), stats.get("lib_calls", 0), stats.get("executions", 0)),
        "faults_fired": {"allocation_failures": stats.get("heap_alloc_failures_injected", 0), "cpuid_traps": stats.get("cpu_traps", 0)},
        "heap_events": {"allocs": stats.get("heap_allocs", 0), "frees": stats.get("heap_frees", 0)},
        "probes": probes,
        "per_flavour": {fl: {"runs": r["stats"].get("runs", 0), "wall_s": r["wall_s"], "first_run": r.get("first_run", 0), "raw_violations": r.get("raw_violations", 0)} for fl, r in results},
        "components": {"real": "all of /repo/src compiled from the working tree with the repository's flags (per flavour: gcc -O3, gcc -O0, clang -O1 ASan+UBSan)",
                       "simulated": "allocator (SimHeap), CPUID/XGETBV (SimCPU trap), stack/heap/caller-memory garbage, buffer placement, guard pages"},
        "notes": ctx.notes,
    }
    if extra_cov:
        cov.update(extra_cov)
    ev = {
        "property_id": ctx.pid, "tier": ctx.tier, "seed": int(ctx.seed), "level": level, "coverage": cov,
        "assumptions": assumptions or ["the simulator's models (validity/life-cycle model, CTR stream model) are correct renderings of the documented API",
                                       "x86-64 host; 32-byte vector accesses and inline behaviour are those of the compilers installed here",
                                       "sampling: a clean batch is evidence, not proof"],
        "wall_s": round(wall, 3), "violations": len(violations),
        "known_findings": [{"sig": v["sig"], "what": k["what"], "occurrences": v.get("occurrences", 1)} for v, k in findings],
    }
    with open(os.path.join(ctx.evidence_dir, ctx.pid + ".json"), "w") as f:
        json.dump(ev, f, indent=1)
    for v, k in findings:
        print("KNOWN-FINDING: property=%s %s [sig=%s, %d occurrence(s) this run, flavour=%s, replay=%s]" % (ctx.pid, k["what"], v["sig"], v.get("occurrences", 1), v.get("flavour", "?"), v["replay"]))
    for v, _ in violations:
        print("---- %s violated: %s (build flavour %s, seed %d, run %s; minimised %s -> %s operations)" % (ctx.pid, v["sig"], v.get("flavour", "?"), ctx.seed, v.get("run"), v.get("ops_before"), v.get("ops_after")))
        print("     " + v["msg"])
        for ln in v.get("trace", [])[:60]:
            print("     " + ln)
    for v, _ in violations:
        print("VIOLATION property=%s replay=%s" % (ctx.pid, v["replay"]))
    print("%s %s: %d simulated runs, %d distinct transitions, %.1fs, %d violation(s), %d known finding(s)" % (ctx.pid, ctx.tier, evaluations, len(hashes), wall, len(violations), len(findings)))
    return 1 if violations else 0


# ----------------------------------------------------------------------------- replay
def replay_digest(ctx, path, meta):
    """cross-build digest mismatch (C11): regenerate the run on both builds and show the first operation that differs"""
    a, b = meta["sig"].split(":")[1].split("-vs-")
    dumps = []
    for fl in (a, b):
        d = build_flavour(ctx, fl)
        p = subprocess.run([os.path.join(d, "objsim"), "--prop", meta["prop"], "--seed", meta["seed"], "--dump", meta["run"]], capture_output=True, text=True)
        dumps.append([re.sub(r"\s+\[[a-z\-]+,be=-?\d+\]$", "", l) for l in p.stdout.split("\n") if not l.startswith("--- execution")])
    for i, (x, y) in enumerate(zip(dumps[0], dumps[1])):
        if x != y:
            print("first difference between the %s and %s builds at trace line %d:\n  %s: %s\n  %s: %s" % (a, b, i, a, x[:400], b, y[:400]))
            print("VIOLATION property=%s replay=%s" % (meta["prop"], path))
            return 1
    print("REPLAY-CLEAN property=%s file=%s" % (meta["prop"], path))
    return 0


def replay(ctx, path):
    fl = "plain"
    engine = "objsim"
    meta = {}
    for ln in open(path):
        t = ln.split()
        if len(t) >= 2 and not ln.startswith("#"):
            meta[t[0]] = t[1]
        if ln.startswith("flavour "):
            fl = ln.split()[1]
        if ln.startswith("engine "):
            engine = ln.split()[1]
    if meta.get("regen") == "isa":
        bad = isa_flags_beyond_the_probes(ctx)
        for src, flag in bad:
            print("%s is compiled with %s" % (src, flag))
        if bad:
            print("VIOLATION property=C13 replay=%s" % path); return 1
        print("REPLAY-CLEAN property=C13 file=%s" % path); return 0
    if meta.get("regen") == "1":
        return replay_digest(ctx, path, meta)
    if engine == "objsim":
        d = build_flavour(ctx, fl)
        return subprocess.run([os.path.join(d, "objsim"), "--replay", path]).returncode
    if engine == "hugesim":
        d = build_flavour(ctx, fl, targets=("hugesim",))
        return subprocess.run([os.path.join(d, "hugesim"), "--replay", path]).returncode
    import engines
    return engines.replay(ctx, engine, fl, path)


def run_check(ctx):
    if ctx.pid in OBJSIM:
        return check_objsim(ctx)
    import engines
    return engines.run(ctx)
