// Seeded plan generators (swarm style: each run first draws its own configuration).
#pragma once
#include "interp.hpp"

struct GSlot { int kind = 0; int life = L_RAW; bool keyed = false, tweaked = false; int cpu = 1; unsigned since_reset = 0; Bytes prev_tweak; Op last_key; bool have_last_key = false; Bytes last_ctr; };

struct Gen {
    Rng r;
    Plan p;
    std::vector<GSlot> g;
    bool allow_null_tweak = false;     // NULL tweak is a *valid* call (zero tweak); only the properties that own it generate it
    explicit Gen(Rng rng) : r(rng) {}

    int add_slot(int kind) { p.slots.push_back(kind); GSlot s; s.kind = kind; g.push_back(s); return (int)g.size() - 1; }
    uint32_t rand_place() {
        // 3 x (mode:2, align:6)
        uint32_t v = 0;
        for (int i = 0; i < 3; ++i) { uint32_t mode = r.below(4); uint32_t al = r.below(64); v |= ((al << 2) | mode) << (8 * i); }
        return v;
    }
    Bytes rand_bytes(size_t n) {
        Bytes v(n);
        switch (r.below(8)) {
        case 0: std::fill(v.begin(), v.end(), 0); break;
        case 1: std::fill(v.begin(), v.end(), 0xFF); break;
        default: r.fill(v.data(), n); break;
        }
        return v;
    }
    unsigned batch_of(const GSlot &s) const { int be = s.cpu; if (s.kind != CTR128 && s.kind != P128 && be > 1) be = 1; if (is_ctr(s.kind)) return ctr_batch_bytes(s.kind, be); return be == 0 ? kind_bs(s.kind) : (s.kind == P128 && be == 2 ? 128 : 64); }
    unsigned data_len(const GSlot &s, unsigned maxlen) {
        unsigned bs = kind_bs(s.kind), b = batch_of(s);
        unsigned n;
        if (maxlen >= 300 && r.chance(1, 150)) return r.chance(1, 4) ? 60000 + r.below(12000) : 1500 + r.below(9500);      // rarely a long single call (loop counters, many batches, more than 64 KiB)
        switch (r.below(14)) {
        case 0: n = 0; break;
        case 1: n = 1; break;
        case 2: n = bs - 1; break;
        case 3: n = bs; break;
        case 4: n = bs + 1; break;
        case 5: n = b - 1; break;
        case 6: n = b; break;
        case 7: n = b + 1; break;
        case 8: n = 2 * b + r.below(b + 1); break;
        case 9: n = b - (s.since_reset % b); break;                 // end exactly on a batch boundary
        case 10: n = b - (s.since_reset % b) + (r.chance(1, 2) ? 1 : b - 1) ; break;
        case 11: n = r.below(3 * b + 4); break;
        default: n = r.below(maxlen + 1); break;
        }
        return n > maxlen ? maxlen : n;
    }
    Bytes counter_value(unsigned bs, unsigned &size) {
        size = r.chance(3, 5) ? bs : r.below(bs + 1);
        Bytes c(size);
        r.fill(c.data(), size);
        switch (r.below(8)) {
        case 0: std::fill(c.begin(), c.end(), 0xFF); break;                                        // wraps on the first increment
        case 1: { std::fill(c.begin(), c.end(), 0xFF); if (size) c[size - 1] = (uint8_t)(0xFF - r.below(12)); break; }   // wraps inside the stream
        case 2: { unsigned t = r.below(size + 1); for (unsigned i = size - t; i < size; ++i) c[i] = 0xFF; break; }          // long carry chain
        case 3: { unsigned t = r.below(size + 1); for (unsigned i = size - t; i < size; ++i) c[i] = 0xFF; if (size) c[size - 1] = (uint8_t)(0xFF - r.below(10)); break; }
        case 4: std::fill(c.begin(), c.end(), 0); break;
        default: break;
        }
        return c;
    }

    // ---- op emitters (also advance the predicted state)
    Op &emit(int code, int slot) { Op o; o.code = code; o.slot = slot; o.place = rand_place(); p.ops.push_back(o); return p.ops.back(); }
    void init(int s, int cpu, int failalloc = 0, int prefill = 0) {
        Op &o = emit(OP_INIT, s); o.cpu = cpu; o.failalloc = failalloc; o.prefill = prefill;
        if (g[s].life != L_INIT) { g[s].life = failalloc ? L_FAILED : L_INIT; g[s].cpu = cpu; g[s].keyed = false; g[s].since_reset = 0; }
    }
    void cleanup(int s) { emit(OP_CLEANUP, s); if (g[s].life == L_INIT) { g[s].life = L_CLEANED; g[s].keyed = false; } }
    void zero(int s) { emit(OP_ZERO, s); if (g[s].life != L_INIT) g[s].life = L_ZEROED; }
    void setkey(int s, unsigned size, bool tweaked = false, int rounds = 0, int mode = 1) {
        Op &o = emit(tweaked ? OP_SETTKEY : OP_SETKEY, s); o.size = size; o.a = rand_bytes(size); o.rounds = rounds; o.mode = mode;
        g[s].last_key = o; g[s].have_last_key = true;
        if (!is_obj(g[s].kind) || g[s].life == L_INIT) { g[s].keyed = true; g[s].tweaked = tweaked; g[s].prev_tweak.assign(kind_bs(g[s].kind), 0); }
    }
    void valid_key(int s, bool primary_only, int want_tweaked = -1) {
        int k = g[s].kind; unsigned bs = kind_bs(k);
        if (g[s].have_last_key && want_tweaked < 0 && r.chance(1, 6)) {     // exactly the same key (and rounds, mode) again
            Op o = g[s].last_key; o.place = rand_place(); p.ops.push_back(o);
            if (!is_obj(k) || g[s].life == L_INIT) { g[s].keyed = true; g[s].tweaked = o.code == OP_SETTKEY; g[s].prev_tweak.assign(bs, 0); }
            return;
        }
        if (is_mantis(k)) { setkey(s, 16, false, r.range(5, 8), r.below(2)); return; }
        bool can_tw = (k == TK128 || k == TK64 || k == CTR128 || k == CTR64);
        bool tw = can_tw && (want_tweaked < 0 ? r.chance(1, 2) : want_tweaked != 0);
        unsigned maxm = tw ? 2 : 3;
        unsigned size = primary_only || r.chance(3, 4) ? bs * r.range(1, maxm) : r.range(bs, bs * maxm);
        setkey(s, size, tw);
    }
    void settweak(int s, int style = -1) {
        int k = g[s].kind; unsigned bs = kind_bs(k);
        Op &o = emit(OP_SETTWEAK, s);
        if (is_mantis(k)) { o.size = 8; o.a = rand_bytes(8); if (r.chance(1, 8)) { o.flags |= F_NULLA; o.a.clear(); } return; }
        if (style < 0 && !allow_null_tweak) style = 1 + r.below(7);
        if (style < 0) style = r.below(8);
        o.size = r.chance(1, 2) ? bs : r.range(1, bs);
        o.a = rand_bytes(o.size);
        if (style == 0) { o.flags |= F_NULLA; o.a.clear(); }
        if (style == 1) std::fill(o.a.begin(), o.a.end(), 0);
        Bytes &pv = g[s].prev_tweak;
        if (style >= 2 && pv.size() == bs && r.chance(1, 3)) {
            // a tweak related to the previous one on this object: real callers use counters and nonce||counter layouts
            switch (r.below(5)) {
            case 0: o.size = r.range(1, bs - 1); o.a.assign(pv.begin(), pv.begin() + o.size); break;          // a shorter prefix of it
            case 1: o.size = bs; o.a = pv; break;                                                              // the same value again
            case 2: o.size = bs; o.a = pv; o.a[bs - 1] = (uint8_t)(o.a[bs - 1] + 1); break;                    // counter step
            case 3: o.size = bs; o.a = pv; for (unsigned q = bs / 2; q < bs; ++q) o.a[q] = r.byte(); break;    // same first half
            default: o.size = bs; o.a = pv; for (unsigned q = 0; q < bs / 2; ++q) o.a[q] = r.byte(); break;    // same second half
            }
        }
        if (!(o.flags & F_NULLA)) { pv = o.a; pv.resize(bs, 0); } else pv.assign(bs, 0);
    }
    void setctr(int s, int style = -1) {
        unsigned bs = kind_bs(g[s].kind);
        Op &o = emit(OP_SETCTR, s);
        if (style < 0) style = r.below(10);
        if (style == 0) { o.flags |= F_NULLA; o.size = r.chance(1, 2) ? 0 : r.below(bs + 1); g[s].last_ctr.assign(bs, 0); }
        else if (style == 9 && g[s].last_ctr.size() == bs) {
            // packets numbered consecutively: continue where the previous packet stopped (or one block off)
            Bytes c = g[s].last_ctr; unsigned adv = (g[s].since_reset + bs - 1) / bs; adv += r.below(4) == 0 ? 1 : 0; if (r.below(6) == 0 && adv) --adv;
            for (int q = (int)bs - 1; q >= 0 && adv; --q) { adv += c[q]; c[q] = (uint8_t)adv; adv >>= 8; }
            o.a = c; o.size = bs; g[s].last_ctr = c;
        } else { o.a = counter_value(bs, o.size); g[s].last_ctr.assign(bs, 0); if (o.size) memcpy(g[s].last_ctr.data() + bs - o.size, o.a.data(), o.size); }
        g[s].since_reset = 0;
    }
    void enc(int s, unsigned n) {
        Op &o = emit(OP_ENC, s); o.size = n; o.a = r.bytes(n); if (r.chance(1, 3)) o.flags |= F_INPLACE;
        g[s].since_reset += n;
    }
    void par(int s, unsigned nblocks, bool dec) {
        int k = g[s].kind; unsigned bs = kind_bs(k);
        if (r.chance(1, 150)) nblocks = r.chance(1, 4) ? 4100 + r.below(400) : 100 + r.below(k == P128 ? 560 : 1200);   // rarely a long request (also more than 64 KiB)
        Op &o = emit(dec && k != PM ? OP_PDEC : OP_PENC, s); o.size = nblocks * bs; o.a = r.bytes(o.size);
        if (k == PM) {
            o.b = r.bytes(o.size);
            switch (r.below(6)) {     // structured tweak arrays: block numbers, sparse, constant
            case 0: for (unsigned q = 0; q < nblocks; ++q) { memset(&o.b[q * 8], 0, 8); o.b[q * 8 + 7] = (uint8_t)q; o.b[q * 8 + 6] = (uint8_t)(q >> 8); } break;
            case 1: std::fill(o.b.begin(), o.b.end(), 0); if (nblocks) o.b[r.below(o.size)] = (uint8_t)(1 + r.below(255)); break;
            case 2: std::fill(o.b.begin(), o.b.end(), r.chance(1, 2) ? 0 : 0xFF); break;
            default: break;
            }
        }
        if (r.chance(1, 3)) o.flags |= F_INPLACE;
    }
    void block(int s, int code = -1) {
        int k = g[s].kind; unsigned bs = kind_bs(k);
        if (code < 0) code = k == MK ? (r.chance(1, 2) ? OP_BENC : OP_BTWK) : (r.chance(1, 2) ? OP_BENC : OP_BDEC);
        Op &o = emit(code, s); o.size = bs; o.a = rand_bytes(bs); if (code == OP_BTWK) o.b = rand_bytes(8);
    }

    // an invalid call of a random class on slot s (C14's fault); flagged F_INJECTED
    void invalid_call(int s) {
        int k = g[s].kind; unsigned bs = kind_bs(k);
        Op o; o.slot = s; o.place = rand_place(); o.flags = F_INJECTED;
        std::vector<int> cls;
        if (is_obj(k)) cls = {0, 1, 2, 3};
        if (is_ctr(k)) { cls.push_back(4); cls.push_back(5); cls.push_back(6); cls.push_back(7); }
        if (is_par(k)) cls.push_back(8);
        if (!is_obj(k)) cls = {1, 2, 3};
        if (is_tks(k) || k == MK) cls.push_back(4);
        int c = r.pick(cls);
        auto badkeylen = [&]() -> unsigned { if (is_mantis(k)) { static const unsigned b[] = {0, 8, 15, 17, 24, 32, 0xFFFFFFFFu}; return b[r.below(7)]; } unsigned mx = 3 * bs; static const unsigned big[] = {0x7FFFFFFFu, 0x80000000u, 0xFFFFFFFFu, 0xFFFFFFF0u}; switch (r.below(5)) { case 0: return r.below(bs); case 1: return mx + 1 + r.below(16); case 2: return 0; case 3: return bs - 1; default: return big[r.below(4)]; } };
        switch (c) {
        case 0:   // any call with a NULL object
            o.flags |= F_NULLOBJ;
            { static const int codes[] = {OP_INIT, OP_CLEANUP, OP_SETKEY, OP_SETCTR, OP_ENC, OP_SETTWEAK, OP_PENC};
              o.code = codes[r.below(7)];
              if (is_par(k) && (o.code == OP_SETCTR || o.code == OP_ENC || o.code == OP_SETTWEAK)) o.code = OP_SETKEY;
              if (is_ctr(k) && o.code == OP_PENC) o.code = OP_ENC;
              if (k == MCTR || k == PM) { o.rounds = 6; }
              if (o.code == OP_SETKEY) { o.size = is_mantis(k) ? 16 : bs; o.a = r.bytes(o.size); }
              if (o.code == OP_ENC || o.code == OP_PENC) { o.size = r.chance(1, 4) ? 0 : bs; o.a = r.bytes(o.size); if (k == PM) o.b = r.bytes(o.size); }
              if (o.code == OP_SETTWEAK) { o.size = is_mantis(k) ? 8 : bs; o.a = r.bytes(o.size); }
              if (o.code == OP_SETCTR) { o.size = bs; o.a = r.bytes(bs); } }
            break;
        case 1:   // NULL key
            o.code = (is_tks(k) || k == CTR128 || k == CTR64) && r.chance(1, 2) ? OP_SETTKEY : OP_SETKEY; o.flags |= F_NULLA; o.size = is_mantis(k) ? 16 : bs; o.rounds = 7; o.mode = 1;
            break;
        case 2:   // key length out of range
            o.code = (is_tks(k) || k == CTR128 || k == CTR64) && r.chance(1, 2) ? OP_SETTKEY : OP_SETKEY;
            o.size = badkeylen(); if (o.code == OP_SETTKEY && o.size > 2 * bs && o.size <= 3 * bs) o.size = 2 * bs + 1;
            if (o.code == OP_SETTKEY && r.chance(1, 3)) o.size = 2 * bs + 1 + r.below(bs);
            o.a = r.bytes(o.size > 3 * bs + 16 ? 3 * bs + 16 : o.size); o.rounds = 7; o.mode = 1;
            break;
        case 3:   // Mantis rounds out of range / (others) key length again
            o.code = OP_SETKEY;
            if (is_mantis(k)) { static const int rr[] = {0, 1, 4, 9, 12, 100}; o.size = 16; o.a = r.bytes(16); o.rounds = rr[r.below(6)]; o.mode = r.below(2); }
            else { o.size = badkeylen(); o.a = r.bytes(o.size > 3 * bs + 16 ? 3 * bs + 16 : o.size); }
            break;
        case 4:   // tweak length out of range
            o.code = OP_SETTWEAK;
            { static const unsigned bad[] = {0, 0, 0xFFFFFFFFu, 0x80000000u}; unsigned pick = r.below(6); o.size = pick < 4 ? bad[pick] : bs + 1 + r.below(8);
              if (is_mantis(k)) { static const unsigned mb[] = {0, 1, 7, 9, 16, 0xFFFFFFFFu}; o.size = mb[r.below(6)]; }
              o.a = r.bytes(o.size > 24 ? 24 : o.size); }
            break;
        case 5:   // counter length out of range
            o.code = OP_SETCTR; { static const unsigned bad[] = {0xFFFFFFFFu, 0x80000000u}; unsigned pick = r.below(4); o.size = pick < 2 ? bad[pick] : bs + 1 + r.below(8); o.a = r.bytes(o.size > 24 ? 24 : o.size); if (r.chance(1, 4)) { o.flags |= F_NULLA; o.a.clear(); } }
            break;
        case 6:   // NULL input
            o.code = OP_ENC; o.size = r.chance(1, 4) ? 0 : 1 + r.below(3 * bs); o.a = r.bytes(o.size); o.flags |= F_NULLA; if (r.chance(1, 5)) o.flags |= F_NULLOUT; break;   // also with nothing to do (size 0) and with both pointers NULL
        case 7:   // NULL output
            o.code = OP_ENC; o.size = r.chance(1, 4) ? 0 : 1 + r.below(3 * bs); o.a = r.bytes(o.size); o.flags |= F_NULLOUT; break;
        case 8:   // parallel: not a whole number of blocks
            o.code = r.chance(1, 2) || k == PM ? OP_PENC : OP_PDEC; o.size = bs * r.below(12) + 1 + r.below(bs - 1); o.a = r.bytes(o.size); if (k == PM) o.b = r.bytes(o.size + 8); break;
        }
        p.ops.push_back(o);
    }

    // a generally useful "next step" for an object slot, chosen by predicted state
    void free_step(int s, bool allow_rekey_midstream, unsigned maxlen, bool primary_only) {
        GSlot &q = g[s]; int k = q.kind;
        if (is_obj(k)) {
            if (q.life != L_INIT) { if (r.chance(3, 4)) init(s, r.below(3)); else if (r.chance(1, 2)) cleanup(s); else zero(s); return; }
            if (!q.keyed) { valid_key(s, primary_only); return; }
            unsigned c = r.below(100);
            if (is_ctr(k)) {
                if (c < 55) enc(s, data_len(q, maxlen));
                else if (c < 70) setctr(s);
                else if (c < 78) { if (allow_rekey_midstream || q.since_reset == 0) { valid_key(s, primary_only); } else { setctr(s); } }
                else if (c < 88) { if ((q.tweaked || k == MCTR) && (allow_rekey_midstream || q.since_reset == 0)) settweak(s); else enc(s, data_len(q, maxlen)); }
                else if (c < 93) cleanup(s);
                else enc(s, data_len(q, maxlen));
            } else {
                if (c < 60) par(s, r.below(3 * batch_of(q) / kind_bs(k) + 4), r.chance(1, 2));
                else if (c < 75) valid_key(s, primary_only);
                else if (c < 85 && k == PM) emit(OP_SWAP, s);
                else if (c < 92) cleanup(s);
                else par(s, r.below(8), r.chance(1, 2));
            }
            return;
        }
        if (!q.keyed) { valid_key(s, primary_only); return; }
        unsigned c = r.below(100);
        if (c < 50) block(s);
        else if (c < 65) valid_key(s, primary_only);
        else if (c < 90) { if (q.tweaked || k == MK) settweak(s); else block(s); }
        else if (k == MK) emit(OP_SWAP, s);
        else block(s);
    }
};

// --------------------------------------------------------------------------- per-property generators
static const int OBJ_KINDS[] = {CTR128, CTR64, MCTR, P128, P64, PM};
static const int CTR_KINDS[] = {CTR128, CTR64, MCTR};
static const int PAR_KINDS[] = {P128, P64, PM};
static const int KS_KINDS[] = {K128, TK128, K64, TK64, MK};

// C15 / C17 / C14-base: object life cycles
static inline Plan gen_lifecycle(Rng rng, int nops_max, bool rich_before_cleanup) {
    Gen G(rng);
    int nobj = 1 + G.r.below(5);
    bool same_kind = G.r.chance(1, 4); int k0 = OBJ_KINDS[G.r.below(6)];      // a quarter of the histories: a pool of objects of one kind
    for (int i = 0; i < nobj; ++i) G.add_slot(same_kind ? k0 : OBJ_KINDS[G.r.below(6)]);
    static const int PREFILL[] = {0, 1, 2, 0, 1, 2, 3, 4, 6, 6};                // prior content of the handle storage
    int nops = 5 + G.r.below(nops_max - 4);
    for (int i = 0; i < nops; ++i) {
        int s = G.r.below(nobj); GSlot &q = G.g[s];
        unsigned c = G.r.below(100);
        if (q.life == L_RAW) { if (c < 85) G.init(s, G.r.below(3), 0, PREFILL[G.r.below(10)]); else G.zero(s); continue; }
        if (q.life != L_INIT) {
            // cleaned / zeroed / failed: cleanup again, use after cleanup, re-init
            if (c < 30) G.init(s, G.r.below(3), G.r.chance(1, 8) ? (G.r.chance(1, 3) ? -1 : 1) : 0, c < 10 ? 5 : PREFILL[G.r.below(10)]);     // one in eight (re-)initialisations runs out of memory
            else if (c < 50) G.cleanup(s);
            else if (c < 55) { Op &o = G.emit(OP_CLEANUP, s); o.flags |= F_NULLOBJ; }
            else if (c < 62) G.zero(s);
            else if (c < 72) { Op &o = G.emit(OP_SETKEY, s); o.size = is_mantis(q.kind) ? 16 : kind_bs(q.kind); o.a = G.r.bytes(o.size); o.rounds = 6; }
            else if (c < 80 && is_ctr(q.kind)) { Op &o = G.emit(OP_ENC, s); o.size = G.r.chance(1, 5) ? 0 : 1 + G.r.below(40); o.a = G.r.bytes(o.size); }
            else if (c < 86 && is_ctr(q.kind)) { Op &o = G.emit(OP_SETCTR, s); o.size = kind_bs(q.kind); o.a = G.r.bytes(o.size); }
            else if (c < 92 && is_ctr(q.kind)) { Op &o = G.emit(OP_SETTWEAK, s); o.size = 8; o.a = G.r.bytes(8); }
            else if (is_par(q.kind)) { Op &o = G.emit(G.r.chance(1, 2) || q.kind == PM ? OP_PENC : OP_PDEC, s); o.size = kind_bs(q.kind) * G.r.below(5); if (G.r.chance(1, 3)) { static const unsigned ps[] = {64, 128, 256, 192}; o.size = ps[G.r.below(4)]; } o.a = G.r.bytes(o.size); if (q.kind == PM) { o.b = G.r.bytes(o.size); if (G.r.chance(1, 3)) o.flags |= F_NULLB; } }
            else G.cleanup(s);
            continue;
        }
        if (rich_before_cleanup && c >= 88 && !q.keyed) { G.valid_key(s, false); continue; }
        if (rich_before_cleanup && is_ctr(q.kind) && q.keyed && G.r.chance(1, 120)) { G.enc(s, 65536 + G.r.below(8192)); continue; }     // a one-shot request of more than 64 KiB (an implementation may keep a big buffer for those)
        if (G.r.chance(1, 25)) { G.invalid_call(s); continue; }      // a rejected call somewhere in the life of the object
        G.free_step(s, true, 300, false);
    }
    return G.p;
}

// C16: an init with an injected allocation failure, every prior handle content class, then a tail
static inline Plan gen_failinit(Rng rng, uint64_t run) {
    Gen G(rng);
    int kind = OBJ_KINDS[run % 6]; int cpu = (run / 6) % 3; int prefill = (run / 18) % 7; static const int FAILK[] = {1, 2, -1}; int k = FAILK[(run / 126) % 3];
    int s = G.add_slot(kind);
    int other = G.add_slot(prefill == 6 ? kind : OBJ_KINDS[G.r.below(6)]);
    if (prefill == 6 || G.r.chance(1, 2)) { G.init(other, G.r.below(3)); G.valid_key(other, true); }
    if (prefill == 5) { G.init(s, cpu); if (G.r.chance(1, 2)) G.valid_key(s, true); G.cleanup(s); }
    G.init(s, cpu, k, prefill);
    G.g[s].life = L_FAILED;
    int tail = 2 + G.r.below(8);
    for (int i = 0; i < tail; ++i) {
        unsigned c = G.r.below(100);
        if (c < 30) G.cleanup(s);
        else if (c < 45) { Op &o = G.emit(OP_SETKEY, s); o.size = is_mantis(kind) ? 16 : kind_bs(kind); o.a = G.r.bytes(o.size); o.rounds = 6; o.mode = 1; }
        else if (c < 55 && is_ctr(kind)) { Op &o = G.emit(OP_ENC, s); o.size = G.r.chance(1, 5) ? 0 : 1 + G.r.below(40); o.a = G.r.bytes(o.size); }
        else if (c < 62 && is_ctr(kind)) { Op &o = G.emit(OP_SETCTR, s); o.size = kind_bs(kind); o.a = G.r.bytes(o.size); }
        else if (c < 68 && is_ctr(kind)) { Op &o = G.emit(OP_SETTWEAK, s); o.size = 8; o.a = G.r.bytes(8); }
        else if (c < 68 && is_par(kind)) { Op &o = G.emit(OP_PENC, s); o.size = kind_bs(kind) * G.r.below(5); o.a = G.r.bytes(o.size); if (kind == PM) o.b = G.r.bytes(o.size); }
        else if (c < 72 && kind == PM) G.emit(OP_SWAP, s);
        else if (c < 88) { G.init(s, G.r.below(3), 0, 5); G.valid_key(s, true); if (is_ctr(kind)) G.enc(s, 20); else G.par(s, 3, false); G.cleanup(s); }
        else if (G.g[other].life == L_INIT) G.free_step(other, true, 100, true);
        else G.cleanup(s);
    }
    return G.p;
}

// C05: CTR streams cut into fragments; packets; sender and receiver on different hosts
static inline Plan gen_stream(Rng rng) {
    Gen G(rng);
    int kind = CTR_KINDS[G.r.below(3)];
    int nobj = 1 + G.r.below(2);
    unsigned bs = kind_bs(kind);
    bool tweaked = kind != MCTR && G.r.chance(1, 2);
    unsigned ksize = is_mantis(kind) ? 16 : (G.r.chance(4, 5) ? bs * G.r.range(1, tweaked ? 2 : 3) : G.r.range(bs, bs * (tweaked ? 2 : 3)));
    Bytes key = G.r.bytes(ksize); int rounds = G.r.range(5, 8);
    for (int i = 0; i < nobj; ++i) { int s = G.add_slot(kind); G.init(s, G.r.below(3)); }
    // a third of the histories: the object has had an earlier session under another key, in the OTHER keying mode
    // (tweaked with a non-zero tweak before an untweaked key, and the reverse), with data sent; the stream under the new
    // key must not remember any of it
    if (G.r.chance(1, 3)) for (int s = 0; s < nobj; ++s) {
        bool ptw = kind != MCTR && !tweaked;
        if (kind == MCTR) G.setkey(s, 16, false, G.r.range(5, 8), 1); else G.setkey(s, bs * G.r.range(1, ptw ? 2 : 3), ptw);
        if (ptw || kind == MCTR) G.settweak(s, 2 + G.r.below(6));
        if (G.r.chance(2, 3)) G.setctr(s);
        if (G.r.chance(3, 4)) G.enc(s, G.data_len(G.g[s], 200));
    }
    for (int s = 0; s < nobj; ++s) { G.setkey(s, ksize, tweaked, rounds, 1); G.p.ops.back().a = key; }
    int packets = 1 + G.r.below(3);
    for (int pk = 0; pk < packets; ++pk) {
        // per packet: counter or tweak carries the sequence number
        Op tw, ct; bool have_tw = false, have_ct = false;
        if ((tweaked || kind == MCTR) && G.r.chance(1, 2)) { G.settweak(0, 2 + G.r.below(6)); tw = G.p.ops.back(); G.p.ops.pop_back(); have_tw = true; }
        if (pk > 0 || have_tw || G.r.chance(3, 4)) { G.setctr(0); ct = G.p.ops.back(); G.p.ops.pop_back(); have_ct = true; }
        size_t packet_start = G.p.ops.size();
        for (int s = 0; s < nobj; ++s) {
            if (have_tw) { tw.slot = s; G.p.ops.push_back(tw); }
            if (have_ct) { ct.slot = s; ct.place = G.rand_place(); G.p.ops.push_back(ct); G.g[s].since_reset = 0; }
            if (have_ct && G.r.chance(1, 6) && !have_tw) { /* key set after the counter but before any data: still defined */ G.setkey(s, ksize, tweaked, rounds, 1); G.p.ops.back().a = key; }
            unsigned total = G.r.below(4) == 0 ? G.r.below(1200) : G.r.below(4 * G.batch_of(G.g[s]) + 8);
            unsigned done = 0; int frags = 0;
            while (done < total && frags < 40) {
                if (G.r.chance(1, 25)) G.invalid_call(s);      // a rejected call in the middle of the stream must not disturb it
                unsigned n = G.data_len(G.g[s], total - done); if (n == 0 && G.r.chance(2, 3)) n = 1 > total - done ? total - done : 1; G.enc(s, n); done += n; ++frags; }
            if (G.r.chance(1, 5)) G.enc(s, 0);
        }
        if (nobj == 2 && G.r.chance(1, 2)) {
            // the two objects are used alternately: merge their calls of this packet, keeping each object's own order
            std::vector<Op> a, b, m; for (size_t q = packet_start; q < G.p.ops.size(); ++q) (G.p.ops[q].slot == 0 ? a : b).push_back(G.p.ops[q]);
            size_t ia = 0, ib = 0; while (ia < a.size() || ib < b.size()) { bool ta = ib >= b.size() || (ia < a.size() && G.r.chance(1, 2)); m.push_back(ta ? a[ia++] : b[ib++]); }
            std::copy(m.begin(), m.end(), G.p.ops.begin() + packet_start);
        }
    }
    return G.p;
}

// C05/C06: the packet protocol of doc/using.dox over a lossy, duplicating, reordering transport between two hosts
static inline Plan gen_packets(Rng rng) {
    Gen G(rng);
    int kind = CTR_KINDS[G.r.below(3)]; unsigned bs = kind_bs(kind);
    bool tweaked = kind != MCTR && G.r.chance(1, 2);
    bool by_tweak = (tweaked || kind == MCTR) && G.r.chance(1, 2);        // sequence number in the tweak (second usage pattern) or in the counter (first)
    unsigned ksize = is_mantis(kind) ? 16 : bs * G.r.range(1, tweaked ? 2 : 3);
    Bytes key = G.r.bytes(ksize); int rounds = G.r.range(5, 8);
    int snd = G.add_slot(kind), rcv = G.add_slot(kind);
    int ca = G.r.below(3), cb = G.r.below(3);
    G.init(snd, ca); G.init(rcv, cb);
    G.setkey(snd, ksize, tweaked, rounds, 1); G.p.ops.back().a = key;
    G.setkey(rcv, ksize, tweaked, rounds, 1); G.p.ops.back().a = key;
    int npk = 2 + G.r.below(5);
    struct Pk { Op setup1, setup2; bool two; int enc_index; unsigned len; };
    std::vector<Pk> sent;
    uint32_t seq = G.r.chance(1, 3) ? 0xFFFFFFFDu : (uint32_t)G.r.next();
    for (int j = 0; j < npk; ++j, ++seq) {
        Pk pk; pk.two = false;
        Bytes sq(bs, 0); sq[0] = (uint8_t)(seq >> 24); sq[1] = (uint8_t)(seq >> 16); sq[2] = (uint8_t)(seq >> 8); sq[3] = (uint8_t)seq;
        if (by_tweak) {
            Op t; t.code = OP_SETTWEAK; t.size = bs; t.a = sq; pk.setup1 = t;
            Op c; c.code = OP_SETCTR; c.size = 0; c.flags = F_NULLA; pk.setup2 = c; pk.two = true;
        } else { Op c; c.code = OP_SETCTR; c.size = bs; c.a = sq; pk.setup1 = c; }
        Op a = pk.setup1; a.slot = snd; a.place = G.rand_place(); G.p.ops.push_back(a);
        if (pk.two) { Op b = pk.setup2; b.slot = snd; G.p.ops.push_back(b); }
        pk.len = G.r.chance(1, 6) ? G.r.below(1200) : G.r.below(3 * G.batch_of(G.g[snd]) + 8);
        G.enc(snd, pk.len); G.p.ops.back().flags &= ~F_INPLACE; pk.enc_index = (int)G.p.ops.size() - 1;
        sent.push_back(pk);
    }
    // the transport: drop, duplicate, reorder
    std::vector<int> wire;
    for (int j = 0; j < npk; ++j) { if (G.r.chance(1, 6)) continue; wire.push_back(j); if (G.r.chance(1, 5)) wire.push_back(j); }
    for (size_t i = wire.size(); i > 1; --i) if (G.r.chance(1, 2)) std::swap(wire[i - 1], wire[G.r.below((uint32_t)i)]);
    for (int j : wire) {
        const Pk &pk = sent[j];
        Op a = pk.setup1; a.slot = rcv; a.place = G.rand_place(); G.p.ops.push_back(a);
        if (pk.two) { Op b = pk.setup2; b.slot = rcv; G.p.ops.push_back(b); }
        unsigned done = 0; int frags = 0; G.g[rcv].since_reset = 0;
        while (done < pk.len && frags < 30) {
            unsigned n = G.data_len(G.g[rcv], pk.len - done); if (n == 0) n = 1;
            Op &o = G.emit(OP_ENC, rcv); o.size = n; o.flags |= F_CHAIN; o.src = pk.enc_index; o.expect = pk.enc_index; o.srcoff = done; if (G.r.chance(1, 3)) o.flags |= F_INPLACE;
            G.g[rcv].since_reset += n; done += n; ++frags;
        }
        if (G.r.chance(1, 4)) { unsigned half = G.r.below(40); if (half) { Op &o = G.emit(OP_ENC, rcv); o.size = half; o.a = G.r.bytes(half); } }   // junk after the packet: leaves keystream in the buffer
    }
    return G.p;
}

// C06: one free history, replayed on every host
static inline Plan gen_xhost(Rng rng, bool with_invalid) {
    Gen G(rng);
    int kind = OBJ_KINDS[G.r.below(6)];
    int s = G.add_slot(kind);
    G.init(s, 1);
    int nops = 6 + G.r.below(40);
    // "odd but accepted" sequences (C06 quantifies over all call sequences): set_tweak on a CTR object whose key was not
    // set with set_tweaked_key returns 1 on every back end, so the outputs that follow must agree as well.
    for (int i = 0; i < nops; ++i) {
        if (with_invalid && G.r.chance(1, 12)) { G.invalid_call(s); continue; }
        if (with_invalid && is_ctr(kind) && G.g[s].life == L_INIT && G.r.chance(1, 10)) { G.settweak(s, 2 + G.r.below(6)); continue; }
        G.free_step(s, true, 400, false);
    }
    return G.p;
}

// C07: parallel ECB, every block count
static inline Plan gen_parallel(Rng rng, uint64_t run) {
    Gen G(rng);
    int kind = PAR_KINDS[run % 3]; int cpu = (run / 3) % 3;
    int s = G.add_slot(kind);
    G.init(s, cpu);
    G.valid_key(s, G.r.chance(3, 4));
    unsigned maxblocks = 3 * G.batch_of(G.g[s]) / kind_bs(kind) + 3;
    unsigned n0 = (run / 9) % (maxblocks + 1);
    G.par(s, n0, (run / 9 / (maxblocks + 1)) & 1);
    int more = G.r.below(5);
    for (int i = 0; i < more; ++i) {
        unsigned c = G.r.below(10);
        if (c == 0) G.valid_key(s, true); else if (c == 1 && kind == PM) G.emit(OP_SWAP, s); else G.par(s, G.r.below(maxblocks + 1), G.r.chance(1, 2));
    }
    return G.p;
}

// C04: tweak histories on tweaked key schedules and through the CTR tweak API
static inline Plan gen_tweak(Rng rng) {
    Gen G(rng);
    bool wide = G.r.chance(1, 2);
    int ks = G.add_slot(wide ? TK128 : TK64);
    int ct = G.add_slot(wide ? CTR128 : CTR64);
    unsigned bs = wide ? 16 : 8;
    unsigned ksize = bs * G.r.range(1, 2);
    G.setkey(ks, ksize, true);
    Bytes key = G.p.ops.back().a;
    G.init(ct, G.r.below(3)); G.setkey(ct, ksize, true); G.p.ops.back().a = key;
    if (G.r.chance(1, 3)) { G.block(ks); }        // fresh schedule: zero tweak
    int n = G.r.below(50);
    Bytes prev;
    for (int i = 0; i < n; ++i) {
        unsigned c = G.r.below(100);
        if (c < 45) {
            int style = G.r.below(10);
            G.settweak(ks, style < 2 ? style : 5);
            Op &o = G.p.ops.back();
            if (style == 2 && !prev.empty()) { o.a = prev; o.size = (uint32_t)prev.size(); }                              // same value again
            if (style == 3 && !prev.empty()) { o.a = prev; o.size = (uint32_t)prev.size(); o.a[G.r.below(o.size)] ^= (uint8_t)(1u << G.r.below(8)); }   // one bit away
            if (style >= 4 && style <= 6 && prev.size() == bs) {   // related tweaks: counter step, same first half, same second half
                o.a = prev; o.size = bs;
                if (style == 4) o.a[bs - 1] = (uint8_t)(o.a[bs - 1] + 1);
                else if (style == 5) for (unsigned q = bs / 2; q < bs; ++q) o.a[q] = G.r.byte();
                else for (unsigned q = 0; q < bs / 2; ++q) o.a[q] = G.r.byte();
            }
            if (!(o.flags & F_NULLA)) prev = o.a;
            if (G.r.chance(1, 2)) { Op c2 = o; c2.slot = ct; G.p.ops.push_back(c2); G.setctr(ct); }
        } else if (c < 75) G.block(ks);
        else if (c < 90) G.enc(ct, G.data_len(G.g[ct], 150));
        else if (c < 94) {                                                         // re-keying resets the tweak - of the schedule, and of the CTR object's own copy
            if (G.r.chance(1, 2)) { G.setkey(ks, ksize, true); G.p.ops.back().a = key; }
            else { G.setkey(ct, ksize, true); G.p.ops.back().a = key; if (G.r.chance(1, 2)) G.setctr(ct); }
        }
        else if (c < 97) { Op &o = G.emit(OP_SETTWEAK, ks); o.flags |= F_INJECTED; o.size = G.r.chance(1, 2) ? 0 : bs + 1 + G.r.below(4); o.a = G.r.bytes(o.size); }   // rejected tweak in the middle
        else G.setctr(ct);
    }
    G.block(ks);
    return G.p;
}

// C10: every key-setting entry point x every length (enumerated by run index)
static inline Plan gen_keylen(Rng rng, uint64_t run) {
    static const int KINDS[] = {K128, TK128, K64, TK64, CTR128, CTR64, P128, P64, MK, MCTR, PM, TK128, TK64, CTR128, CTR64};   // the last four: tweaked entry points
    Gen G(rng);
    int which = run % 15; int kind = KINDS[which]; bool tweaked_ep = which >= 11;
    unsigned bs = kind_bs(kind);
    uint64_t li = run / 15;
    unsigned nlen = 3 * bs + 17;
    unsigned len;
    static const unsigned huge[] = {0x7FFFFFFFu, 0x80000000u, 0xFFFFFFFFu, 0xFFFFFFF0u, 0x100u, 0x10000u + 16};
    if (li % (nlen + 6) < nlen) len = (unsigned)(li % (nlen + 6)); else len = huge[li % (nlen + 6) - nlen];
    int s = G.add_slot(kind);
    int cpu = G.r.below(3);
    if (is_obj(kind)) G.init(s, cpu);
    // the object already holds a different valid schedule
    if (G.r.chance(4, 5)) {
        G.valid_key(s, true, tweaked_ep ? 1 : (kind == TK128 || kind == TK64 || kind == CTR128 || kind == CTR64) ? 0 : -1);
        if (is_ctr(kind)) { G.enc(s, G.r.below(40)); } else if (is_par(kind)) G.par(s, 2, false); else G.block(s);
    }
    Op &o = G.emit(tweaked_ep ? OP_SETTKEY : OP_SETKEY, s);
    o.size = len; o.a = G.rand_bytes(len > 3 * bs + 16 ? 3 * bs + 16 : len); o.place = (o.place & 0xFFFF) | (MEM_END_FLUSH << 16);
    if (is_mantis(kind)) { o.rounds = G.r.chance(2, 3) ? G.r.range(5, 8) : G.r.below(13); o.mode = G.r.below(2); }
    // after the call: use the object
    if (is_ctr(kind)) { G.g[s].keyed = true; G.setctr(s); G.enc(s, 1 + G.r.below(100)); }
    else if (is_par(kind)) { G.g[s].keyed = true; G.par(s, 1 + G.r.below(6), false); G.par(s, 1 + G.r.below(6), true); }
    else { G.g[s].keyed = true; G.block(s, OP_BENC); G.block(s, kind == MK ? OP_BTWK : OP_BDEC); }
    return G.p;
}

// C03: inverses through every entry point; Mantis mode-switch histories
static inline Plan gen_inverse(Rng rng) {
    Gen G(rng);
    int which = G.r.below(8);
    if (which < 3) {
        int s = G.add_slot(MK);
        G.valid_key(s, true);
        int n = 4 + G.r.below(40);
        for (int i = 0; i < n; ++i) {
            unsigned c = G.r.below(100);
            if (c < 30) { int k = 1 + G.r.below(3); if (G.r.chance(1, 6)) k = 4 + G.r.below(3); for (int j = 0; j < k; ++j) G.emit(OP_SWAP, s); }
            else if (c < 55) G.settweak(s);
            else if (c < 63) G.valid_key(s, true);
            else G.block(s);
        }
    } else if (which < 5) {
        int s = G.add_slot(KS_KINDS[G.r.below(4)]);
        G.valid_key(s, G.r.chance(3, 4));
        int n = 2 + G.r.below(12);
        for (int i = 0; i < n; ++i) { unsigned c = G.r.below(10); if (c == 0) G.valid_key(s, true); else if (c == 1 && G.g[s].tweaked) G.settweak(s, 3); else G.block(s); }
    } else {
        int kind = PAR_KINDS[G.r.below(3)];
        int s = G.add_slot(kind);
        G.init(s, G.r.below(3));
        G.valid_key(s, G.r.chance(3, 4));
        int n = 1 + G.r.below(8);
        for (int i = 0; i < n; ++i) { unsigned c = G.r.below(12); if (c == 0) G.valid_key(s, true); else if (c <= 2 && kind == PM) G.emit(OP_SWAP, s); else G.par(s, G.r.below(41), G.r.chance(1, 2)); }
    }
    return G.p;
}

// C14: valid histories with invalid calls injected anywhere
static inline Plan gen_errors(Rng rng) {
    Gen G(rng);
    G.allow_null_tweak = true;
    int nobj = 1 + G.r.below(3);
    for (int i = 0; i < nobj; ++i) G.add_slot(G.r.chance(2, 3) ? OBJ_KINDS[G.r.below(6)] : KS_KINDS[G.r.below(5)]);
    int nops = 6 + G.r.below(45);
    for (int i = 0; i < nops; ++i) {
        int s = G.r.below(nobj); GSlot &q = G.g[s];
        if (G.r.chance(1, 4)) { G.invalid_call(s); continue; }
        if (is_obj(q.kind) && q.life == L_RAW) { if (G.r.chance(1, 6)) G.zero(s); else if (G.r.chance(1, 6)) G.init(s, G.r.below(3), 1, G.r.below(5)); else G.init(s, G.r.below(3)); continue; }
        if (is_obj(q.kind) && q.life == L_CLEANED && G.r.chance(1, 8)) { G.init(s, G.r.below(3), 1, 5); continue; }     // a re-initialisation that fails
        if (is_obj(q.kind) && q.life != L_INIT && G.r.chance(1, 2)) {
            // valid-looking call on a zeroed / cleaned-up object: must be rejected
            Op o; o.slot = s; o.place = G.rand_place(); o.flags = F_INJECTED; unsigned bs = kind_bs(q.kind);
            switch (G.r.below(5)) {
            case 0: o.code = OP_SETKEY; o.size = is_mantis(q.kind) ? 16 : bs; o.a = G.r.bytes(o.size); o.rounds = 6; o.mode = 1; break;
            case 1: o.code = is_ctr(q.kind) ? OP_SETCTR : OP_PENC; o.size = bs; if (o.code == OP_PENC && G.r.chance(1, 2)) { static const unsigned ps[] = {64, 128, 256, 192}; o.size = ps[G.r.below(4)]; } o.a = G.r.bytes(o.size); if (q.kind == PM) o.b = G.r.bytes(o.size); break;
            case 2: o.code = is_ctr(q.kind) ? OP_ENC : OP_PDEC; if (q.kind == PM) o.code = OP_PENC; o.size = bs * (G.r.chance(1, 4) ? 0 : 1 + G.r.below(4)); if (G.r.chance(1, 3)) { static const unsigned ps[] = {64, 128, 256, 192}; o.size = ps[G.r.below(4)]; } o.a = G.r.bytes(o.size); if (q.kind == PM) o.b = G.r.bytes(o.size); break;
            case 3: o.code = is_ctr(q.kind) ? OP_SETTWEAK : OP_SETKEY; o.size = is_ctr(q.kind) ? 8 : (is_mantis(q.kind) ? 16 : bs); o.a = G.r.bytes(o.size); o.rounds = 5; o.mode = 0; break;
            default: o.code = (q.kind == CTR128 || q.kind == CTR64) ? OP_SETTKEY : OP_CLEANUP; o.size = bs; o.a = G.r.bytes(bs); if (o.code == OP_CLEANUP) { o.flags = 0; o.a.clear(); } break;
            }
            G.p.ops.push_back(o);
            continue;
        }
        G.free_step(s, false, 300, true);
    }
    return G.p;
}

// C09: placement of every pointer argument, overlap, exact aliasing
static inline Plan gen_buffers(Rng rng) {
    Gen G(rng);
    int n = 1 + G.r.below(3);
    for (int i = 0; i < n; ++i) G.add_slot(G.r.chance(1, 2) ? OBJ_KINDS[G.r.below(6)] : KS_KINDS[G.r.below(5)]);
    int nops = 8 + G.r.below(40);
    for (int i = 0; i < nops; ++i) {
        int s = G.r.below(n); GSlot &q = G.g[s];
        size_t before = G.p.ops.size();
        G.free_step(s, false, 700, false);
        for (size_t j = before; j < G.p.ops.size(); ++j) {
            Op &o = G.p.ops[j];
            if (o.code == OP_BENC || o.code == OP_BDEC || o.code == OP_BTWK) { if (G.r.chance(1, 2)) { int bs = kind_bs(q.kind); o.delta = (int)G.r.below(2 * bs - 1) - (bs - 1); if (o.delta == 0) o.flags |= F_INPLACE; } }
            if (o.code == OP_SETKEY || o.code == OP_SETTKEY || o.code == OP_SETTWEAK || o.code == OP_SETCTR) { uint32_t m = G.r.below(3); o.place = (o.place & 0xFFFF) | (((G.r.below(64) << 2) | (m == 0 ? MEM_END_FLUSH : m == 1 ? MEM_START_FLUSH : 3)) << 16); }
        }
    }
    return G.p;
}

// C11 (and the digest workloads of C12): a mixture of everything above
static inline Plan gen_mixture(Rng rng, uint64_t run) {
    switch (run % 10) {
    case 9: return gen_errors(rng);
    case 8: return gen_failinit(rng, rng.s % 100000);
    case 0: return (rng.s & 1) ? gen_stream(rng) : gen_packets(rng);
    case 1: return gen_tweak(rng);
    case 2: return gen_keylen(rng, rng.s % 100000);
    case 3: return gen_inverse(rng);
    case 4: return gen_parallel(rng, rng.s % 100000);
    case 5: return gen_lifecycle(rng, 40, true);
    case 6: return gen_buffers(rng);
    default: return gen_xhost(rng, (rng.s >> 8) & 1);     // half of them with the calls that have no model (executed only where the oracle is differential)
    }
}
