"""Engines other than the plain objsim runs: thrsim (C18), ctsim (C08), cfgsim (C12), toolsim (C20), ardsim (C19)."""
import os, sys, json, subprocess, time, re
import props


def _run_json(cmd, out, what):
    p = subprocess.run(cmd, capture_output=True, text=True)
    if p.returncode not in (0, 1):
        sys.stderr.write(p.stdout[-3000:] + p.stderr[-6000:])
        print("HARNESS-ERROR %s exit=%d" % (what, p.returncode))
        raise SystemExit(2)
    res = json.load(open(out))
    os.unlink(out)
    return res


def symbolise(binary, text):
    """replace pc+0x... tokens by function/file:line using addr2line on the binary"""
    def rep(m):
        try:
            o = subprocess.run(["addr2line", "-f", "-C", "-e", binary, m.group(1)], capture_output=True, text=True).stdout.split("\n")
            return "%s (%s)" % (o[0], o[1].replace("/repo/", ""))
        except Exception:
            return m.group(0)
    return re.sub(r"pc\+(0x[0-9a-f]+)", rep, text)


# ----------------------------------------------------------------------------- C18 thrsim
def check_c18(ctx):
    known, _ = props.load_known(ctx)
    known_here = [k for k in known if k["property"] == "C18"]
    base = 40000 if ctx.tier == "quick" else 3000000
    results = []
    for i, (fl, frac) in enumerate([("tsanhook", 1.0), ("tsanhook_o0", 0.25)]):
        d = props.build_flavour(ctx, fl, targets=("thrsim",))
        out = os.path.join(ctx.B, "out", "C18-%s-%d.json" % (fl, os.getpid()))
        os.makedirs(os.path.dirname(out), exist_ok=True)
        cmd = [os.path.join(d, "thrsim"), "--tier", ctx.tier, "--seed", str(ctx.seed), "--runs", str(int(base * frac)), "--first", str(i * base),
               "--out", out, "--outdir", os.path.join(ctx.B, "out"), "--replaydir", ctx.replay_dir]
        r = _run_json(cmd, out, "property=C18 flavour=" + fl)
        for v in r["violations"]:
            v["msg"] = symbolise(os.path.join(d, "thrsim"), v["msg"])
        results.append((fl, r))
    violations, findings = [], []
    for fl, r in results:
        for v in r["violations"]:
            v["flavour"] = fl
            hit = [k for k in known_here if k["sig"] == v["sig"]]
            (findings if hit else violations).append((v, hit[0] if hit else None))
    st = {}
    for _, r in results:
        for k, v in r["stats"].items():
            st[k] = st.get(k, 0) + v
    extra = {
        "scheduler": {"context_switches": st.get("switches", 0), "instrumented_accesses": st.get("accesses", 0), "accesses_checked_by_race_monitor": st.get("recorded", 0),
                      "distinct_interleavings_measure": "hash of the (task, accesses-run) segment sequence of a run; distinct_nontrivial counts distinct hashes"},
        "components": {"real": "all of /repo/src compiled with the repository's flags plus -fsanitize=thread (instrumentation only; our own call-backs, not the TSan run-time), gcc -O3 and -O0",
                       "simulated": "threads (coroutines under a seeded scheduler pre-empting at every instrumented access), allocator, CPUID"},
    }
    rule = ("2-4 tasks per run, three scenarios (distinct objects with free histories; one shared keyed schedule or parallel-ECB object used read-only by all tasks; concurrent init/cleanup); "
            "pre-emption with p in {1/4,1/32,1/256} per instrumented access or 1-3 change points; oracles: each task's results equal the same history run alone, race monitor over all "
            "non-stack accesses, global-write monitor (.data/.bss); distinct+non-trivial = distinct schedule-segment sequences (every run has >= 2 tasks that both execute library code)")
    return props.finish(ctx, "exploration", rule, results, violations, findings, extra_cov=extra,
                        assumptions=["interleavings at compiler-visible-access granularity under sequential consistency; accesses wider than 16 bytes (AVX rows) are not instrumented",
                                     "the instrumented build (-fsanitize=thread) has the same sharing structure as the shipped one", "sampling of schedules"])


# ----------------------------------------------------------------------------- C08 ctsim
def check_c08(ctx):
    known, _ = props.load_known(ctx)
    known_here = [k for k in known if k["property"] == "C08"]
    base = 8000 if ctx.tier == "quick" else 400000
    results = []
    for i, (fl, frac) in enumerate([("tsanhook", 1.0), ("tsanhook_o0", 0.3), ("tsanhook_clang", 0.5)]):
        d = props.build_flavour(ctx, fl)
        r = props.run_objsim(ctx, fl, "C08", int(base * frac), i * base, [k["sig"] for k in known_here])
        for v in r["violations"]:
            v["msg"] = symbolise(os.path.join(d, "objsim"), v["msg"])
        results.append((fl, r))
    violations, findings = [], []
    for fl, r in results:
        for v in r["violations"]:
            v["flavour"] = fl
            hit = [k for k in known_here if k["sig"] == v["sig"]]
            (findings if hit else violations).append((v, hit[0] if hit else None))
    pr = {}
    for _, r in results:
        for k, v in r["probes"].items():
            pr[k] = pr.get(k, 0) + v
    extra = {"trace_events_compared": pr.get("ct.events", 0),
             "components": {"real": "all of /repo/src with the repository's flags plus -fsanitize=thread -fsanitize-coverage=trace-pc (instrumentation only), gcc -O3, gcc -O0, clang -O3",
                            "simulated": "allocator, CPUID, stack and buffer placement (all fixed so that two executions are comparable event for event)"}}
    rule = ("each seeded public plan (operation kinds, lengths, rounds, mode, back end via the CPU model, placements) is executed with 5 secret assignments (as generated, all-00, all-FF, two random) "
            "for every key, tweak, counter, data and tweak-array byte; the sequence of basic blocks entered and of (address,size,read/write) accesses made by library code during the "
            "calls must be identical; distinct+non-trivial = distinct (kind, back end, op, state, size class) transitions traced")
    return props.finish(ctx, "exploration", rule, results, violations, findings, extra_cov=extra,
                        assumptions=["branches and addresses are observed at the compiler's instrumentation level of an instrumented build, not micro-architectural timing and not the exact shipped object code",
                                     "32-byte AVX accesses are not instrumented by either compiler (their addresses are still fixed by the preceding scalar code)",
                                     "secrets are sampled: 5 assignments per public plan"])


CHECKS = {"C18": check_c18, "C08": check_c08}


def run(ctx):
    if ctx.pid in CHECKS:
        return CHECKS[ctx.pid](ctx)
    print("unknown property or no check registered: %s" % ctx.pid)
    return 2


def replay(ctx, engine, fl, path):
    if engine == "thrsim":
        d = props.build_flavour(ctx, fl, targets=("thrsim",))
        p = subprocess.run([os.path.join(d, "thrsim"), "--replay", path], capture_output=True, text=True)
        sys.stdout.write(symbolise(os.path.join(d, "thrsim"), p.stdout))
        return p.returncode
    print("unknown engine in replay file: %s" % engine)
    return 2


def prebuild(ctx):
    for fl in ("tsanhook", "tsanhook_o0"):
        props.build_flavour(ctx, fl, targets=("thrsim", "objsim"))
        print("built", fl)
    props.build_flavour(ctx, "tsanhook_clang")
    print("built tsanhook_clang")
