// Plans: explicit operation lists with explicit, attached faults.  Every
// subsequence of a plan is again a valid plan (the model is total), which is
// what makes delta debugging sound.
#pragma once
#include "core.hpp"
#include <sstream>

enum Kind { K128 = 0, TK128, K64, TK64, MK, CTR128, CTR64, MCTR, P128, P64, PM, NKINDS };
static const char *const KIND_NAME[NKINDS] = {"K128", "TK128", "K64", "TK64", "MK", "CTR128", "CTR64", "MCTR", "P128", "P64", "PM"};
static inline bool is_ctr(int k) { return k == CTR128 || k == CTR64 || k == MCTR; }
static inline bool is_par(int k) { return k == P128 || k == P64 || k == PM; }
static inline bool is_obj(int k) { return is_ctr(k) || is_par(k); }
static inline bool is_mantis(int k) { return k == MK || k == MCTR || k == PM; }
static inline bool is_tks(int k) { return k == TK128 || k == TK64; }
static inline int kind_bs(int k) { return (k == K128 || k == TK128 || k == CTR128 || k == P128) ? 16 : 8; }
static inline int kind_fam(int k) { return is_mantis(k) ? 2 : kind_bs(k) == 16 ? 0 : 1; }   // 0 skinny128, 1 skinny64, 2 mantis

enum OpCode {
    OP_INIT = 0, OP_CLEANUP, OP_ZERO,        // OP_ZERO is a simulator action: the caller zeroes its handle
    OP_SETKEY, OP_SETTKEY, OP_SETTWEAK, OP_SETCTR,
    OP_ENC,                                  // CTR encrypt
    OP_PENC, OP_PDEC,                        // parallel ECB (Mantis: PENC = crypt)
    OP_BENC, OP_BDEC, OP_BTWK,               // single block (Mantis: BENC = crypt, BTWK = crypt_tweaked)
    OP_SWAP,
    NOPS
};
static const char *const OP_NAME[NOPS] = {"INIT", "CLEANUP", "ZERO", "SETKEY", "SETTKEY", "SETTWEAK", "SETCTR", "ENC", "PENC", "PDEC", "BENC", "BDEC", "BTWK", "SWAP"};

enum {
    F_NULLOBJ = 1, F_NULLA = 2, F_NULLOUT = 4, F_NULLB = 8, F_INPLACE = 16,
    F_INJECTED = 32,        // this op was inserted as an invalid-call fault (C14 differential strips it)
    F_JUNKREGS = 64,        // call through the junk-register thunk (INIT)
    F_CHAIN = 128           // the input of this data call is the OUTPUT of operation `src` (a packet travelling to another host);
                            // if `expect` >= 0 the output must equal the INPUT of operation `expect` (the original plaintext)
};

struct Op {
    int code = 0, slot = 0;
    uint32_t size = 0;          // the size/length argument as passed
    int rounds = 0, mode = 0;   // Mantis
    int cpu = 1;                // INIT: CPU model index (0 generic, 1 sse2, 2 avx2 pinning models; >=3 grid models)
    int failalloc = 0;          // the k-th allocation made during this op fails (0 = none); negative: the |k|-th and every later one (memory exhausted)
    int prefill = 0;            // INIT: class of prior handle content (0 junk,1 zeros,2 0xFF,3 ptr to live block,4 ptr to guard page,5 keep previous bytes,6 image of another live object of the same kind)
    uint32_t flags = 0;
    int delta = 0;              // single-block: output = input + delta
    int src = -1, expect = -1;  // F_CHAIN
    uint32_t srcoff = 0;        // F_CHAIN: offset into the source operation's output (the receiver cuts the packet its own way)
    uint32_t place = 0;         // placement bits: 3 x (2 bit mode + 6 bit align) for out,in,aux
    Bytes a, b;
};

struct Plan {
    std::vector<int> slots;     // kind per slot
    std::vector<Op> ops;
};

static inline std::string op_to_line(const Op &o) {
    std::ostringstream s;
    s << "op " << OP_NAME[o.code] << " slot=" << o.slot << " size=" << o.size;
    if (o.rounds || o.mode) s << " rounds=" << o.rounds << " mode=" << o.mode;
    if (o.code == OP_INIT) s << " cpu=" << o.cpu << " prefill=" << o.prefill;
    if (o.failalloc) s << " failalloc=" << o.failalloc;
    if (o.flags) s << " flags=" << o.flags;
    if (o.delta) s << " delta=" << o.delta;
    if (o.flags & F_CHAIN) s << " src=" << o.src << " expect=" << o.expect << " srcoff=" << o.srcoff;
    if (o.place) s << " place=" << o.place;
    if (!o.a.empty()) s << " a=" << hex(o.a);
    if (!o.b.empty()) s << " b=" << hex(o.b);
    return s.str();
}

static inline std::string plan_to_text(const Plan &p) {
    std::ostringstream s;
    s << "slots";
    for (int k : p.slots) s << " " << KIND_NAME[k];
    s << "\n";
    for (auto &o : p.ops) s << op_to_line(o) << "\n";
    return s.str();
}

static inline bool parse_op_line(const std::string &ln, Op &o) {
    std::istringstream is(ln);
    std::string t; is >> t; if (t != "op") return false;
    is >> t;
    o = Op(); o.code = -1;
    for (int i = 0; i < NOPS; ++i) if (t == OP_NAME[i]) o.code = i;
    if (o.code < 0) return false;
    while (is >> t) {
        size_t eq = t.find('='); if (eq == std::string::npos) continue;
        std::string k = t.substr(0, eq), v = t.substr(eq + 1);
        if (k == "slot") o.slot = atoi(v.c_str());
        else if (k == "size") o.size = (uint32_t)strtoul(v.c_str(), 0, 10);
        else if (k == "rounds") o.rounds = atoi(v.c_str());
        else if (k == "mode") o.mode = atoi(v.c_str());
        else if (k == "cpu") o.cpu = atoi(v.c_str());
        else if (k == "prefill") o.prefill = atoi(v.c_str());
        else if (k == "failalloc") o.failalloc = atoi(v.c_str());
        else if (k == "flags") o.flags = (uint32_t)strtoul(v.c_str(), 0, 10);
        else if (k == "delta") o.delta = atoi(v.c_str());
        else if (k == "src") o.src = atoi(v.c_str());
        else if (k == "expect") o.expect = atoi(v.c_str());
        else if (k == "srcoff") o.srcoff = (uint32_t)strtoul(v.c_str(), 0, 10);
        else if (k == "place") o.place = (uint32_t)strtoul(v.c_str(), 0, 10);
        else if (k == "a") o.a = unhex(v);
        else if (k == "b") o.b = unhex(v);
    }
    return true;
}

static inline bool parse_slots_line(const std::string &ln, Plan &p) {
    std::istringstream is(ln);
    std::string t; is >> t; if (t != "slots") return false;
    p.slots.clear();
    while (is >> t) { int k = -1; for (int i = 0; i < NKINDS; ++i) if (t == KIND_NAME[i]) k = i; if (k < 0) return false; p.slots.push_back(k); }
    return true;
}

// erase ops [a,b) and keep F_CHAIN references consistent (a reference into the erased range becomes dangling = -1, which the interpreter skips)
static inline void erase_ops(Plan &p, size_t a, size_t b) {
    p.ops.erase(p.ops.begin() + a, p.ops.begin() + b);
    for (auto &o : p.ops) if (o.flags & F_CHAIN) {
        auto fix = [&](int &r) { if (r < 0) return; if ((size_t)r >= b) r -= (int)(b - a); else if ((size_t)r >= a) r = -1; };
        fix(o.src); fix(o.expect);
    }
}

// human-readable one-line summary of an op (for reports and evidence samples)
static inline std::string op_brief(const Plan &p, const Op &o) {
    std::ostringstream s;
    const char *kn = (o.slot >= 0 && o.slot < (int)p.slots.size()) ? KIND_NAME[p.slots[o.slot]] : "?";
    s << OP_NAME[o.code] << "(" << kn << "#" << o.slot;
    switch (o.code) {
    case OP_INIT: s << ",cpu=" << o.cpu; if (o.failalloc) s << ",fail-alloc#" << o.failalloc; break;
    case OP_SETKEY: case OP_SETTKEY: case OP_SETTWEAK: case OP_SETCTR:
        s << ",len=" << o.size; if (o.flags & F_NULLA) s << ",NULL"; else if (o.a.size() <= 16) s << "," << hex(o.a);
        if (o.rounds) s << ",r=" << o.rounds << ",m=" << o.mode; break;
    case OP_ENC: case OP_PENC: case OP_PDEC: s << ",n=" << o.size; if (o.flags & F_INPLACE) s << ",inplace"; if (o.flags & F_CHAIN) s << ",input=output-of-#" << o.src << "+" << o.srcoff; break;
    default: break;
    }
    if (o.flags & F_NULLOBJ) s << ",obj=NULL";
    if (o.flags & F_NULLOUT) s << ",out=NULL";
    if (o.flags & F_INJECTED) s << ",injected";
    s << ")";
    return s.str();
}
