#!/usr/bin/env python3
"""Store confirmed seeded changes processed by mk/seeded_batch.py under /verif/seeded/<prefix><PID>-<n>/.

usage: mk/store_seeded.py RESULTS_JSON PREFIX ROUND
Only entries with status "confirmed" are stored; meta.json records which checks were run and what they reported.
"""
import os, sys, json, shutil, re
V = os.path.dirname(os.path.dirname(os.path.abspath(__file__)))


def main():
    res = json.load(open(sys.argv[1])); prefix = sys.argv[2]; rnd = sys.argv[3]
    for name, r in sorted(res.items()):
        if r.get("status") != "confirmed":
            print("skip", name, r.get("status")); continue
        pid = name.split("-")[0]
        dst = os.path.join(V, "seeded", prefix + name)
        if os.path.exists(dst):
            print("exists", dst); continue
        os.makedirs(dst)
        shutil.copy(r["patch"], os.path.join(dst, "patch.diff"))
        demo = r["demo"]; shutil.copy(demo, dst)
        readme = os.path.join(os.path.dirname(demo), "README2.txt" if re.search(r"demo2\.", demo) else "README.txt")
        if os.path.exists(readme):
            shutil.copy(readme, os.path.join(dst, "README.txt"))
        caught = {c: v["sigs"][:3] for c, v in r["checks"].items() if v["sigs"]}
        missed = [c for c, v in r["checks"].items() if not v["sigs"]]
        meta = {"name": prefix + name, "breaks_property": pid, "origin": "independent sub-agent, round " + rnd, "patch": "patch.diff",
                "demonstration": os.path.basename(demo),
                "demo_command_from_worktree_root": r["cmd"].replace(os.path.dirname(demo), dst),
                "confirmed_by": "mk/verify_seeded.sh: " + r["verify"][0], "needs_to_manifest": "see README.txt (first paragraph)",
                "checks_run": sorted(r["checks"]), "caught_by": caught, "missed_by": missed}
        json.dump(meta, open(os.path.join(dst, "meta.json"), "w"), indent=1)
        print("stored", dst, "caught by", ",".join(caught) or "NOTHING")


if __name__ == "__main__":
    main()
