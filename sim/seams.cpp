#include "seams.hpp"
#include <link.h>
#include <pthread.h>
#include <sys/mman.h>
#include <ucontext.h>
#include <unistd.h>
#include <cpuid.h>
#include <sys/personality.h>

SimHeap g_heap;
SimCPU g_cpu;
ArgArea g_area[A_NAREAS];
HandleArena g_handles;
sigjmp_buf g_crash_jmp;
volatile sig_atomic_t g_in_lib = 0;
CrashInfo g_crash;
volatile uint64_t g_call_seq = 0;

// ------------------------------------------------------------------ TLS of the executable image
static ExeTls g_exetls; static bool g_exetls_probed = false;
static int exetls_cb(struct dl_phdr_info *info, size_t, void *) {
    for (int i = 0; i < info->dlpi_phnum; ++i) if (info->dlpi_phdr[i].p_type == PT_TLS && info->dlpi_tls_data) {
        g_exetls.block = (uint8_t *)info->dlpi_tls_data; g_exetls.memsz = info->dlpi_phdr[i].p_memsz; g_exetls.filesz = info->dlpi_phdr[i].p_filesz;
        g_exetls.image = (const uint8_t *)(info->dlpi_addr + info->dlpi_phdr[i].p_vaddr);
    }
    return 1;       // the first entry is the main program; shared objects keep their own TLS (libc's errno and friends are not ours to swap)
}
// every module's thread-local block of this (the only) OS thread: libc's errno lives in one of them.  Real threads each
// have their own, so an access there is never shared between simulated threads.
static std::vector<std::pair<const uint8_t *, size_t>> g_tls_ranges; static bool g_tls_ranges_probed = false;
static int tlsrange_cb(struct dl_phdr_info *info, size_t, void *) {
    for (int i = 0; i < info->dlpi_phnum; ++i) if (info->dlpi_phdr[i].p_type == PT_TLS && info->dlpi_tls_data) g_tls_ranges.push_back({(const uint8_t *)info->dlpi_tls_data, (size_t)info->dlpi_phdr[i].p_memsz});
    return 0;
}
bool in_thread_local_storage(const void *p) {
    if (!g_tls_ranges_probed) { g_tls_ranges_probed = true; dl_iterate_phdr(tlsrange_cb, nullptr); }
    for (auto &r : g_tls_ranges) if ((const uint8_t *)p >= r.first && (const uint8_t *)p < r.first + r.second) return true;
    return false;
}
const ExeTls &exe_tls() { if (!g_exetls_probed) { g_exetls_probed = true; dl_iterate_phdr(exetls_cb, nullptr); } return g_exetls; }
void exe_tls_reset() { const ExeTls &t = exe_tls(); if (!t.memsz) return; memcpy(t.block, t.image, t.filesz); memset(t.block + t.filesz, 0, t.memsz - t.filesz); }
void exe_tls_save(std::vector<uint8_t> &to) { const ExeTls &t = exe_tls(); to.assign(t.block, t.block + t.memsz); }
void exe_tls_load(const std::vector<uint8_t> &from) { const ExeTls &t = exe_tls(); if (t.memsz && from.size() == t.memsz) memcpy(t.block, from.data(), t.memsz); }
void SimCPU::set(const CpuModel *m) { if (m && m != model) exe_tls_reset(); model = m; }

// Sanitizer flavour: classify sanitizer deaths (exit code 77) and leave the
// fault signals to the simulator's own handlers.
extern "C" __attribute__((used, visibility("default"))) const char *__asan_default_options() {
    return "exitcode=77:detect_leaks=0:handle_segv=0:handle_sigbus=0:handle_sigill=0:handle_sigfpe=0:"
           "allow_user_segv_handler=1:abort_on_error=0:detect_stack_use_after_return=0";
}

// ================================================================== SimHeap
#ifndef SIMHEAP_BASE
#define SIMHEAP_BASE 0x200000000000ULL
#endif

void SimHeap::init_arena() {
    if (arena) return;
    size_t sz = (size_t)NCELLS * CELL + (size_t)NBIG * BIG;
    void *want = (void *)SIMHEAP_BASE;
    void *p = mmap(want, sz, PROT_READ | PROT_WRITE, MAP_PRIVATE | MAP_ANONYMOUS | MAP_FIXED_NOREPLACE, -1, 0);
    if (p == MAP_FAILED || p != want) {
        fprintf(stderr, "simheap: cannot map arena at fixed address\n");
        _exit(2);
    }
    arena = (uint8_t *)p;
    for (int i = 0; i < NCELLS + NBIG; ++i) mprotect(cell_base(i) + cell_data(i), CELL_GUARD, PROT_NONE);
}

void SimHeap::begin_run(uint64_t junk, Rng placement, EventLog *lg) {
    init_arena();
    end_run();
    blocks.clear(); issues.clear();
    blocks.reserve(NCELLS + NBIG + 8);     // never reallocates within a run: pointers to HeapBlock stay valid across library calls
    cells_used = 0; big_used = 0; cur_op = -1; fail_at = 0; allocs_in_op = frees_in_op = failed_in_op = 0;
    junk_seed = junk; place_rng = placement; log = lg;
    active = true;
}

void SimHeap::end_run() {
    for (int i = 0; i < cells_used; ++i) mprotect(arena + (size_t)i * CELL, CELL_DATA, PROT_READ | PROT_WRITE);
    for (int i = 0; i < big_used; ++i) mprotect(cell_base(NCELLS + i), BIG_DATA, PROT_READ | PROT_WRITE);
    cells_used = 0; big_used = 0;
    active = false;
}

void SimHeap::begin_op(int op, int fail_at_k) { cur_op = op; fail_at = fail_at_k; allocs_in_op = 0; frees_in_op = 0; failed_in_op = 0; }

static void junk_fill(uint8_t *p, size_t n, uint64_t seed) {
    // non-zero, non-constant junk that differs between worlds
    uint64_t x = seed | 1;
    size_t i = 0;
    for (; i + 8 <= n; i += 8) { x = x * 6364136223846793005ULL + 1442695040888963407ULL; uint64_t v = x | 0x0101010101010101ULL; memcpy(p + i, &v, 8); }
    for (; i < n; ++i) p[i] = (uint8_t)(0x5A ^ i ^ seed) | 1;
}

void *SimHeap::alloc(size_t n, bool zero, size_t align) {
    ++allocs_in_op;
    // fail_at > 0: exactly that request fails; fail_at < 0: memory is exhausted from request -fail_at of this operation on
    if ((fail_at > 0 && allocs_in_op == fail_at) || (fail_at < 0 && allocs_in_op >= -fail_at)) {
        ++failed_in_op; ++n_failed;
        if (log) log->ev("heap.fail", cur_op, n);
        return nullptr;
    }
    if (n > CELL_DATA - 256) {
        // a big block: placed so that it ends at the guard page; only its own bytes and a margin before it are junk-filled
        if (big_used >= NBIG || n > BIG_DATA - 4096) { ++n_failed; if (log) log->ev("heap.nomem-big", cur_op, n); return nullptr; }     // the simulated machine is out of memory for requests of this size: a legitimate NULL, not a finding
        int cell = NCELLS + big_used++;
        uint8_t *data = cell_base(cell);
        size_t al = align > 16 ? align : 16, off = (BIG_DATA - n) & ~(al - 1);
        junk_fill(data + off - 256, n + 256 + (BIG_DATA - off - n), junk_seed ^ (uint64_t)cell * 0x9E3779B97F4A7C15ULL);
        HeapBlock b;
        b.id = (int)blocks.size(); b.base = data + off; b.size = n; b.cell = cell; b.live = true;
        b.zeroed_contract = zero; b.alloc_op = cur_op; b.placement = PLACE_FLUSH;
        if (zero) memset(b.base, 0, n);
        blocks.push_back(b);
        ++n_alloc;
        if (log) log->ev("heap.alloc-big", cur_op, n, (uint64_t)(b.base - arena));
        return b.base;
    }
    if (cells_used >= NCELLS) {
        issues.push_back({strf("simheap exhausted (%zu bytes requested, %d cells in use)", n, cells_used), cur_op, -1});
        return nullptr;
    }
    int cell = cells_used++;
    uint8_t *data = arena + (size_t)cell * CELL;
    junk_fill(data, CELL_DATA, junk_seed ^ (uint64_t)cell * 0x9E3779B97F4A7C15ULL);
    int pl = forced_placement >= 0 ? forced_placement : (int)place_rng.below(PLACE_NKINDS);
    size_t off;
    switch (pl) {
    case PLACE_A16: off = 1024 + 16 + 32 * place_rng.below(8); break;       // 16-aligned, not 32-aligned
    case PLACE_A32: off = 1024 + 32 + 64 * place_rng.below(8); break;       // 32-aligned, not 64-aligned
    case PLACE_A64: off = 1024 + 64 * place_rng.below(8); break;
    default: off = CELL_DATA - ((n + 15) & ~(size_t)15); break;              // end as close to the guard page as 16-alignment allows
    }
    if (align > 16) off = (off + align - 1) & ~(align - 1);
    if (off + n > CELL_DATA) off = (CELL_DATA - n) & ~(size_t)(align > 16 ? align - 1 : 15);
    HeapBlock b;
    b.id = (int)blocks.size(); b.base = data + off; b.size = n; b.cell = cell; b.live = true;
    b.zeroed_contract = zero; b.alloc_op = cur_op; b.placement = pl;
    if (zero) memset(b.base, 0, n);
    blocks.push_back(b);
    ++n_alloc;
    if (log) log->ev("heap.alloc", cur_op, n, (uint64_t)(b.base - arena));
    return b.base;
}

HeapBlock *SimHeap::find_live(const void *p) {
    for (auto &b : blocks) if (b.live && (const uint8_t *)p >= b.base && (const uint8_t *)p < b.base + b.size) return &b;
    return nullptr;
}
HeapBlock *SimHeap::find_any(const void *p) {
    if (!in_arena(p)) return nullptr;
    size_t o = (size_t)((const uint8_t *)p - arena);
    int cell = o < (size_t)NCELLS * CELL ? (int)(o / CELL) : NCELLS + (int)((o - (size_t)NCELLS * CELL) / BIG);
    for (auto &b : blocks) if (b.cell == cell) return &b;
    return nullptr;
}

void SimHeap::release(void *p) {
    ++frees_in_op;
    if (!p) { if (log) log->ev("heap.free0", cur_op); return; }
    HeapBlock *hit = nullptr;
    for (auto &b : blocks) if (b.base == p) hit = &b;
    if (!hit) {
        HeapBlock *in = find_any(p);
        if (in) issues.push_back({strf("free() of a pointer %ld bytes inside block #%d (size %zu), not the pointer the allocator returned", (long)((uint8_t *)p - in->base), in->id, in->size), cur_op, in->id});
        else issues.push_back({strf("free() of a pointer the allocator never returned (%s)", classify_addr(p).c_str()), cur_op, -1});
        if (log) log->ev("heap.badfree", cur_op);
        return;
    }
    if (!hit->live) {
        issues.push_back({strf("double free of block #%d (allocated in op %d, first freed in op %d)", hit->id, hit->alloc_op, hit->free_op), cur_op, hit->id});
        if (log) log->ev("heap.dblfree", cur_op, hit->id);
        return;
    }
    // C17: inspect the block at the instant it is released
    hit->zero_at_free = true;
    for (size_t i = 0; i < hit->size; ++i) if (hit->base[i]) { hit->zero_at_free = false; hit->first_nonzero_at_free = i; break; }
    hit->live = false; hit->free_op = cur_op;
    ++n_free;
    if (log) log->ev("heap.free", cur_op, hit->id, hit->zero_at_free);
    uint8_t *data = cell_base(hit->cell);
    if (hit->cell < NCELLS) junk_fill(data, CELL_DATA, ~junk_seed ^ (uint64_t)hit->cell);
    else junk_fill(hit->base, hit->size, ~junk_seed ^ (uint64_t)hit->cell);
    mprotect(data, cell_data(hit->cell), PROT_NONE);   // any later touch faults
}

void SimHeap::scan_nonzero() {
    for (auto &b : blocks) if (b.live && !b.ever_nonzero) {
        for (size_t i = 0; i < b.size; ++i) if (b.base[i]) { b.ever_nonzero = true; break; }
    }
}
int SimHeap::live_count() const { int n = 0; for (auto &b : blocks) n += b.live; return n; }

extern "C" {
void *simheap_calloc(size_t a, size_t b) {
    if (!g_heap.active) return calloc(a, b);
    if (b && a > (size_t)-1 / b) return nullptr;
    return g_heap.alloc(a * b, true, 16);
}
void *simheap_malloc(size_t n) { if (!g_heap.active) return malloc(n); return g_heap.alloc(n, false, 16); }
void simheap_free(void *p) { if (!g_heap.active && !g_heap.in_arena(p)) { free(p); return; } g_heap.release(p); }
void *simheap_realloc(void *p, size_t n) {
    if (!g_heap.active) return realloc(p, n);
    void *q = g_heap.alloc(n, false, 16);
    if (q && p) { HeapBlock *b = g_heap.find_live(p); if (b) memcpy(q, p, b->size < n ? b->size : n); g_heap.release(p); }
    return q;
}
void *simheap_reallocarray(void *p, size_t a, size_t b) { return simheap_realloc(p, a * b); }
int simheap_posix_memalign(void **out, size_t al, size_t n) {
    if (!g_heap.active) return posix_memalign(out, al, n);
    void *q = g_heap.alloc(n, false, al); if (!q) return 12; *out = q; return 0;
}
void *simheap_aligned_alloc(size_t al, size_t n) { if (!g_heap.active) return aligned_alloc(al, n); return g_heap.alloc(n, false, al); }
void *simheap_memalign(size_t al, size_t n) { return simheap_aligned_alloc(al, n); }
void *simheap_valloc(size_t n) { return simheap_aligned_alloc(4096, n); }
void *simheap_pvalloc(size_t n) { return simheap_aligned_alloc(4096, n); }
}

// ================================================================== SimCPU
#define L1_ECX_TYPICAL (0x7ffafbffu & ~((1u << 26) | (1u << 27) | (1u << 28)))
// Pinning models.  They are deliberately robust against the way the probe asks
// (e.g. a stale sub-leaf): only the selection matters for the properties that
// use them, realism matters for C13, which has its own grid.
const CpuModel CPU_GENERIC = {"pin-generic", 13, false, false, false, false, 0, true, 1, 0};
const CpuModel CPU_SSE2 = {"pin-sse2", 13, true, false, false, false, 0, true, 3, L1_ECX_TYPICAL};
const CpuModel CPU_AVX2 = {"pin-avx2", 13, true, true, true, true, 1u << 5, true, 7, L1_ECX_TYPICAL};
const CpuModel *cpu_pin_model(int backend) { return backend == 2 ? &CPU_AVX2 : backend == 1 ? &CPU_SSE2 : &CPU_GENERIC; }

static void emu_cpuid(const CpuModel &m, uint32_t leaf, uint32_t sub, uint32_t r[4]) {
    r[0] = r[1] = r[2] = r[3] = 0;
    if (leaf >= 0x80000000u) { if (leaf == 0x80000000u) r[0] = 0x80000008u; return; }
    if (leaf > m.maxleaf) { if (!m.intel_oor) return; leaf = m.maxleaf; }
    switch (leaf) {
    case 0: r[0] = m.maxleaf; r[1] = 0x756e6547; r[3] = 0x49656e69; r[2] = 0x6c65746e; break;
    case 1:
        r[0] = 0x000806EC; r[1] = 0x00100800;
        r[3] = 0x078bfbffu & ~(1u << 26); if (m.sse2) r[3] |= 1u << 26;
        r[2] = m.l1_ecx_extra & ~((1u << 26) | (1u << 27) | (1u << 28));
        if (m.avx) r[2] |= 1u << 28;
        if (m.osxsave) r[2] |= (1u << 27) | (1u << 26);
        break;
    case 7:
        if (sub == 0) { r[0] = 0; r[1] = (1u << 3) | (1u << 8) | (1u << 9); if (m.avx2) r[1] |= 1u << 5; r[2] = 0x40; r[3] = 0x400; }
        else { r[1] = m.l7_other_ebx; }
        break;
    // the leaves below have nothing to do with SIMD support; they carry the values of real parts so that a probe which
    // looks at the wrong leaf (or is answered with the highest basic leaf for an out-of-range one) sees realistic bits
    case 2: r[0] = 0x00feff01; r[1] = 0x00f0b2ff; r[2] = 0; r[3] = 0x00ca0000; break;                 // cache descriptors
    case 4: if (sub < 4) { r[0] = 0x1c004121 + (sub << 5); r[1] = 0x01c0003f; r[2] = 0x3f << sub; r[3] = 0; } break;   // cache parameters
    case 5: r[0] = 0x40; r[1] = 0x40; r[2] = 3; r[3] = 0x11142120; break;                             // MONITOR/MWAIT
    case 6: r[0] = 0x27f7; r[1] = 2; r[2] = 9; r[3] = 0; break;                                       // thermal and power
    case 0xa: r[0] = 0x07300404; r[1] = 0; r[2] = 0; r[3] = 0x603; break;                             // performance monitoring
    case 0xb: r[0] = sub == 0 ? 1 : sub == 1 ? 4 : 0; r[1] = sub == 0 ? 2 : sub == 1 ? 8 : 0; r[2] = sub < 2 ? ((sub + 1) << 8) | sub : sub; r[3] = 0; break;
    case 0xd:
        // sub-leaf 0 reports the state components the PROCESSOR supports (x87, SSE, and AVX if it has AVX) - not what the
        // operating system enabled in XCR0, which only XGETBV tells
        if (sub == 0) { r[0] = m.avx ? 7 : 3; r[3] = 0; r[1] = (m.xcr0 & 4) ? 832 : 576; r[2] = m.avx ? 832 : 576; }
        else if (sub == 1) { r[0] = 1; }
        else if (sub == 2 && m.avx) { r[0] = 256; r[1] = 576; }
        break;
    default: break;
    }
}

static void fatal_signal_in_harness(int sig, void *addr, void *pc) {
    char buf[200];
    int n = snprintf(buf, sizeof buf, "HARNESS-FAULT signal %d addr %p pc %p (outside any library call)\n", sig, addr, pc);
    if (write(2, buf, n)) {}
    _exit(2);
}

static void on_sigill(int sig, siginfo_t *si, void *ucv) {
    ucontext_t *uc = (ucontext_t *)ucv;
    uint8_t *ip = (uint8_t *)uc->uc_mcontext.gregs[REG_RIP];
    if (ip[0] == 0x0f && ip[1] == 0x0b && (ip[2] == 1 || ip[2] == 2)) {
        uint32_t eax = (uint32_t)uc->uc_mcontext.gregs[REG_RAX];
        uint32_t ecx = (uint32_t)uc->uc_mcontext.gregs[REG_RCX];
        uint32_t r[4] = {0, 0, 0, 0};
        if (ip[2] == 1) {
            if (g_cpu.model) emu_cpuid(*g_cpu.model, eax, ecx, r);
            else __cpuid_count(eax, ecx, r[0], r[1], r[2], r[3]);          // no simulation active: the real CPU answers
            uc->uc_mcontext.gregs[REG_RAX] = r[0]; uc->uc_mcontext.gregs[REG_RBX] = r[1];
            uc->uc_mcontext.gregs[REG_RCX] = r[2]; uc->uc_mcontext.gregs[REG_RDX] = r[3];
            g_cpu.traps.push_back({1, eax, ecx});
        } else {
            uint64_t x = 7;
            if (g_cpu.model) { x = g_cpu.model->xcr0; if (!g_cpu.model->osxsave) g_cpu.illegal_xgetbv = true; }
            else { uint32_t lo, hi; __asm__ volatile("xgetbv" : "=a"(lo), "=d"(hi) : "c"(0)); x = ((uint64_t)hi << 32) | lo; }
            if (ecx != 0) x = 0;
            uc->uc_mcontext.gregs[REG_RAX] = (uint32_t)x; uc->uc_mcontext.gregs[REG_RDX] = (uint32_t)(x >> 32);
            g_cpu.traps.push_back({2, 0, ecx});
        }
        ++g_cpu.n_traps;
        uc->uc_mcontext.gregs[REG_RIP] += 3;
        return;
    }
    if (g_in_lib) {
        g_crash.sig = sig; g_crash.addr = (uintptr_t)si->si_addr; g_crash.pc = (uintptr_t)ip;
        g_crash.where = "illegal instruction or undefined-behaviour trap";
        siglongjmp(g_crash_jmp, 1);
    }
    fatal_signal_in_harness(sig, si->si_addr, ip);
}

void SimCPU::install() {
    struct sigaction sa; memset(&sa, 0, sizeof sa);
    sa.sa_sigaction = on_sigill; sa.sa_flags = SA_SIGINFO | SA_NODEFER;
    sigemptyset(&sa.sa_mask);
    sigaction(SIGILL, &sa, nullptr);
}

// ================================================================== SimDirt
__attribute__((noinline)) void dirty_stack(uint64_t pattern) {
    volatile uint64_t buf[3072 + 8];     // 24 KiB below the caller's frame
    uint64_t x = pattern | 1;
    for (int i = 0; i < 3072 + 8; ++i) { x = x * 6364136223846793005ULL + 1442695040888963407ULL; buf[i] = x | 0x0101010101010101ULL; }
    __asm__ volatile("" ::"r"(buf) : "memory");
}

__asm__(
    ".text\n.globl call_with_junk_regs\n.type call_with_junk_regs,@function\n"
    "call_with_junk_regs:\n"
    "  pushq %rdi\n"                 // fn
    "  movq %rsi, %rdi\n"            // arg
    "  movq %rdx, %rax\n"
    "  movq %rdx, %rcx\n  rolq $7, %rcx\n"
    "  movq %rcx, %rsi\n  rolq $11, %rsi\n"
    "  movq %rsi, %r8\n   rolq $13, %r8\n"
    "  movq %r8, %r9\n    rolq $17, %r9\n"
    "  movq %r9, %r10\n   rolq $19, %r10\n"
    "  movq %r10, %r11\n  rolq $23, %r11\n"
    "  movq %r11, %rdx\n  rolq $29, %rdx\n"
    "  callq *(%rsp)\n"
    "  addq $8, %rsp\n"
    "  cltq\n"
    "  ret\n"
    ".size call_with_junk_regs,.-call_with_junk_regs\n");

// ================================================================== SimMem
static void *fixed_map(uintptr_t at, size_t size) {
    void *p = mmap((void *)at, size, PROT_READ | PROT_WRITE, MAP_PRIVATE | MAP_ANONYMOUS | MAP_FIXED_NOREPLACE, -1, 0);
    if (p == MAP_FAILED || p != (void *)at) { fprintf(stderr, "sim: cannot map fixed region at %lx\n", (unsigned long)at); _exit(2); }
    return p;
}
static uintptr_t g_next_area = SIMHEAP_BASE + 0x10000000ULL;
void ArgArea::init() {
    if (map) return;
    void *p = fixed_map(g_next_area, DATA + 8192); g_next_area += 0x1000000;
    map = (uint8_t *)p;
    mprotect(map, 4096, PROT_NONE);
    mprotect(map + 4096 + DATA, 4096, PROT_NONE);
}
// Only a window of 512 bytes on either side of the current buffer is junk-filled and verified (the guard pages catch
// what runs further); the rest of the area is never looked at, so a run costs memory traffic proportional to its data.
void ArgArea::begin_run(uint8_t fill) { init(); fillb = fill; cur = nullptr; curlen = 0; }
uint8_t *ArgArea::place(size_t len, int mode, unsigned align) {
    if (len > DATA - 4096 - 64) { fprintf(stderr, "HARNESS-FAULT: argument of %zu bytes does not fit a caller-memory area\n", len); _exit(2); }
    uint8_t *p;
    if (mode == MEM_END_FLUSH) p = data() + DATA - len;
    else if (mode == MEM_START_FLUSH) p = data();
    else p = data() + 2048 + (align & 63);
    cur = p; curlen = len;
    {
        uint8_t *lo = p - 512 < data() ? data() : p - 512;
        uint8_t *hi = p + len + 512 > data() + DATA ? data() + DATA : p + len + 512;
        memset(lo, fillb, (size_t)(hi - lo));
    }
    return p;
}
bool ArgArea::verify_outside(std::string *why) {
    if (!cur) return true;
    uint8_t *lo = cur - 512 < data() ? data() : cur - 512;
    uint8_t *hi = cur + curlen + 512 > data() + DATA ? data() + DATA : cur + curlen + 512;
    for (uint8_t *q = lo; q < cur; ++q) if (*q != fillb) { if (why) *why = strf("byte %ld before the buffer start was overwritten", (long)(cur - q)); *q = fillb; return false; }
    for (uint8_t *q = cur + curlen; q < hi; ++q) if (*q != fillb) { if (why) *why = strf("byte %ld past the buffer end was overwritten", (long)(q - (cur + curlen))); *q = fillb; return false; }
    return true;
}
bool ArgArea::verify_all(std::string *why) { return verify_outside(why); }

void HandleArena::init() {
    if (map) return;
    void *p = fixed_map(SIMHEAP_BASE + 0x20000000ULL, (size_t)NSLOTS * 16384);
    map = (uint8_t *)p;
    for (int s = 0; s < NSLOTS; ++s) { mprotect(map + (size_t)s * 16384, 4096, PROT_NONE); mprotect(map + (size_t)s * 16384 + 4096 + 8192, 4096, PROT_NONE); }
}

// ================================================================== crash catcher
std::string classify_addr(const void *p) {
    uintptr_t a = (uintptr_t)p;
    if (a < 65536) return strf("NULL page (0x%lx)", (unsigned long)a);
    if (g_heap.in_arena(p)) {
        size_t off = (const uint8_t *)p - g_heap.arena;
        int cell = (int)(off / SimHeap::CELL); size_t in = off % SimHeap::CELL;
        for (auto &b : g_heap.blocks) if (b.cell == cell) {
            long rel = (long)((const uint8_t *)p - b.base);
            if (!b.live) return strf("freed heap block #%d (+%ld of %zu bytes; freed in op %d)", b.id, rel, b.size, b.free_op);
            if (in >= SimHeap::CELL_DATA) return strf("guard page after live heap block #%d (+%ld, block size %zu)", b.id, rel, b.size);
            return strf("heap block #%d (+%ld)", b.id, rel);
        }
        return strf("simheap arena cell %d (unallocated)", cell);
    }
    static const char *an[] = {"output", "input", "aux", "aux2"};
    for (int i = 0; i < A_NAREAS; ++i) if (g_area[i].contains(p)) {
        const ArgArea &A = g_area[i];
        if (A.cur) return strf("%s buffer area, %ld bytes from buffer start (buffer length %zu)", an[i], (long)((const uint8_t *)p - A.cur), A.curlen);
        return strf("%s buffer area", an[i]);
    }
    if (g_handles.contains(p)) return strf("guard page around caller-owned object slot %d", (int)(((const uint8_t *)p - g_handles.map) / 16384));
    return strf("address 0x%lx", (unsigned long)a);
}

static void on_fault(int sig, siginfo_t *si, void *ucv) {
    ucontext_t *uc = (ucontext_t *)ucv;
    void *pc = (void *)uc->uc_mcontext.gregs[REG_RIP];
    if (g_in_lib) {
        g_crash.sig = sig; g_crash.addr = (uintptr_t)si->si_addr; g_crash.pc = (uintptr_t)pc;
        g_crash.where = "";
        siglongjmp(g_crash_jmp, 1);
    }
    fatal_signal_in_harness(sig, si->si_addr, pc);
}

void install_crash_handlers() {
    struct sigaction sa; memset(&sa, 0, sizeof sa);
    sa.sa_sigaction = on_fault; sa.sa_flags = SA_SIGINFO | SA_NODEFER;
    sigemptyset(&sa.sa_mask);
    sigaction(SIGSEGV, &sa, nullptr);
    sigaction(SIGBUS, &sa, nullptr);
    sigaction(SIGFPE, &sa, nullptr);
}

// Liveness ("every call returns"): the library has no clock, so the budget is host time, generous enough (CPU-seconds
// for calls that take microseconds) that only a genuine hang can exhaust it.  Two timers: CPU time of this process
// (ITIMER_VIRTUAL; a busy loop is caught after g_wd_limit CPU-seconds however loaded the machine is, and a starved
// worker is never mistaken for a hung one) and wall time as a back-stop for a call that blocks without burning CPU.
#include <sys/time.h>
struct WdState { int limit; uint64_t last = ~0ULL; int stuck = 0; };
static WdState g_wd_cpu{3}, g_wd_wall{120};
int g_wd_timeouts = 0;          // how many calls the watchdog has ended in this process
static void on_alarm(int sig, siginfo_t *, void *ucv) {
    WdState &w = sig == SIGVTALRM ? g_wd_cpu : g_wd_wall;
    if (!g_in_lib) { w.stuck = 0; w.last = ~0ULL; return; }
    if (g_call_seq != w.last) { w.last = g_call_seq; w.stuck = 0; return; }
    if (++w.stuck < w.limit) return;
    g_wd_cpu.stuck = g_wd_wall.stuck = 0; g_wd_cpu.last = g_wd_wall.last = ~0ULL;
    ++g_wd_timeouts;
    ucontext_t *uc = (ucontext_t *)ucv;
    g_crash.sig = SIGALRM; g_crash.addr = 0; g_crash.pc = (uintptr_t)uc->uc_mcontext.gregs[REG_RIP];
    g_crash.where = sig == SIGVTALRM ? "the call did not return within the watchdog budget of CPU time: runaway loop or livelock"
                                     : "the call did not return within the watchdog budget of wall time: it blocks";
    siglongjmp(g_crash_jmp, 1);
}
static void arm_watchdog_timers() {
    struct itimerval it; it.it_interval.tv_sec = 1; it.it_interval.tv_usec = 0; it.it_value = it.it_interval;
    setitimer(ITIMER_VIRTUAL, &it, nullptr);
    setitimer(ITIMER_REAL, &it, nullptr);
}
void install_watchdog(int cpu_seconds) {
    // interval timers are NOT inherited across fork(): every worker re-arms its own
    static bool registered = false; if (!registered) { registered = true; pthread_atfork(nullptr, nullptr, arm_watchdog_timers); }
    g_wd_cpu.limit = cpu_seconds < 2 ? 2 : cpu_seconds;
    g_wd_wall.limit = std::max(120, 4 * g_wd_cpu.limit);
    struct sigaction sa; memset(&sa, 0, sizeof sa);
    sa.sa_sigaction = on_alarm; sa.sa_flags = SA_SIGINFO | SA_NODEFER | SA_RESTART; sigemptyset(&sa.sa_mask);
    sigaction(SIGALRM, &sa, nullptr);
    sigaction(SIGVTALRM, &sa, nullptr);
    arm_watchdog_timers();
}

void seams_init() {
    g_heap.init_arena();
    for (int i = 0; i < A_NAREAS; ++i) g_area[i].init();
    g_handles.init();
    SimCPU::install();
    install_crash_handlers();
    install_watchdog(3);
}

// ================================================================== determinism of addresses
void disable_aslr_and_reexec(char **argv) {
    int cur = personality(0xffffffff);
    if (cur != -1 && !(cur & ADDR_NO_RANDOMIZE) && !getenv("SIM_NO_REEXEC")) {
        if (personality(cur | ADDR_NO_RANDOMIZE) != -1) {
            setenv("SIM_NO_REEXEC", "1", 1);
            execv("/proc/self/exe", argv);
        }
    }
}

extern "C" void sim_switch_stack_call(void *newsp, void (*fn)(void *), void *arg);
__asm__(
    ".text\n.globl sim_switch_stack_call\n.type sim_switch_stack_call,@function\n"
    "sim_switch_stack_call:\n"
    "  pushq %rbp\n  movq %rsp, %rbp\n  movq %rdi, %rsp\n  movq %rdx, %rdi\n  callq *%rsi\n  movq %rbp, %rsp\n  popq %rbp\n  ret\n"
    ".size sim_switch_stack_call,.-sim_switch_stack_call\n");
void run_on_sim_stack(void (*fn)(void *), void *arg) {
    static char *stack = nullptr;
    const size_t SZ = 4u << 20;
    if (!stack) { stack = (char *)fixed_map(SIMHEAP_BASE + 0x40000000ULL, SZ + 8192); mprotect(stack, 4096, PROT_NONE); }
    sim_switch_stack_call(stack + 4096 + SZ - 64, fn, arg);
}
