objsim: objsim.cpp gen.hpp interp.hpp seams.hpp core.hpp lib.hpp plan.hpp \
 /repo/include/skinny128-cipher.h /repo/include/skinny64-cipher.h \
 /repo/include/mantis-cipher.h /repo/include/skinny128-parallel.h \
 /repo/include/skinny128-cipher.h /repo/include/skinny64-parallel.h \
 /repo/include/skinny64-cipher.h /repo/include/mantis-parallel.h \
 /repo/include/mantis-cipher.h model.hpp
gen.hpp:
interp.hpp:
seams.hpp:
core.hpp:
lib.hpp:
plan.hpp:
/repo/include/skinny128-cipher.h:
/repo/include/skinny64-cipher.h:
/repo/include/mantis-cipher.h:
/repo/include/skinny128-parallel.h:
/repo/include/skinny128-cipher.h:
/repo/include/skinny64-parallel.h:
/repo/include/skinny64-cipher.h:
/repo/include/mantis-parallel.h:
/repo/include/mantis-cipher.h:
model.hpp:
