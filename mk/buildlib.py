#!/usr/bin/env python3
"""Build the skinny-c library objects from /repo's *current working tree* for
one simulator flavour.

The per-file compile command is taken from a dry run of the repository's own
Makefile (`make -n -B -C <repo>/src all`), so flags are the repo's, not a copy.
Every source is compiled to assembly, the two instructions the simulator owns
(`cpuid`, `xgetbv`) are rewritten into `ud2` traps followed by a marker byte
(the SimCPU seam, DESIGN.md 2.2), the result is assembled, and the allocator
symbols of *these objects only* are renamed to simheap_* (the SimHeap seam,
DESIGN.md 2.1).

usage: buildlib.py FLAVOUR OUTDIR [--repo /repo] [--cc CC] [--opt -O2] [--def NAME=VAL ...]
flavours: plain o0 asan tsanhook cfg
Prints the list of objects on stdout (one per line).
"""
import sys, os, re, subprocess, hashlib, shlex, concurrent.futures, argparse, json

ALLOC_SYMS = ["calloc", "malloc", "realloc", "free", "posix_memalign",
              "aligned_alloc", "memalign", "valloc", "pvalloc", "reallocarray"]

TRAP_SED = [
    (re.compile(r'^\s*cpuid\s*$', re.M), '\t.byte 0x0f,0x0b,0x01'),
    (re.compile(r'^\s*xgetbv\s*$', re.M), '\t.byte 0x0f,0x0b,0x02'),
]


def repo_compile_lines(repo, makevars=()):
    out = subprocess.run(["make", "-n", "-B", "-C", os.path.join(repo, "src"), "all"] + list(makevars),
                         capture_output=True, text=True, check=True).stdout
    lines = []
    for ln in out.splitlines():
        toks = shlex.split(ln)
        if len(toks) > 3 and "-c" in toks and "-o" in toks and toks[-1].endswith(".c"):
            src = toks[-1]
            obj = toks[toks.index("-o") + 1]
            flags = [t for i, t in enumerate(toks[1:-1], 1)
                     if t not in ("-c", "-o") and toks[i - 1] != "-o"]
            lines.append((src, obj, flags))
    if not lines:
        raise SystemExit("buildlib: could not parse compile lines from make -n")
    return lines


def examples_compile_lines(repo):
    out = subprocess.run(["make", "-n", "-B", "-C", os.path.join(repo, "examples"), "all", "DEPS="], capture_output=True, text=True, check=True).stdout
    lines = []
    for ln in out.splitlines():
        toks = shlex.split(ln)
        if len(toks) > 3 and "-c" in toks and toks[-1].endswith(".c"):
            src = toks[-1]
            obj = toks[toks.index("-o") + 1] if "-o" in toks else src[:-2] + ".o"
            flags = [t for i, t in enumerate(toks[1:-1], 1) if t not in ("-c", "-o") and toks[i - 1] != "-o"]
            lines.append((src, obj, flags))
    if not lines:
        raise SystemExit("buildlib: could not parse compile lines of examples/")
    return lines


def build_tools(repo, outdir):
    """examples/*.c with the repository's flags; main renamed per tool, fopen redirected to the simulated file layer"""
    h = hashlib.sha256()
    for fn in sorted(os.listdir(os.path.join(repo, "examples"))):
        if fn.endswith((".c", ".h")) or fn == "Makefile":
            h.update(fn.encode()); h.update(open(os.path.join(repo, "examples", fn), "rb").read())
    for fn in sorted(os.listdir(os.path.join(repo, "include"))):
        h.update(open(os.path.join(repo, "include", fn), "rb").read())
    h.update(open(__file__, "rb").read())
    key = h.hexdigest()
    os.makedirs(outdir, exist_ok=True)
    stamp = os.path.join(outdir, "STAMP")
    lines = examples_compile_lines(repo)
    objs = [os.path.join(outdir, o) for _, o, _ in lines]
    if os.path.exists(stamp) and open(stamp).read().strip() == key and all(os.path.exists(o) for o in objs):
        print("\n".join(objs)); return
    if os.path.exists(stamp):
        os.unlink(stamp)
    for src, obj, flags in lines:
        f = [x for x in flags if x not in ("-Wall", "-Wextra")] + ["-w"]
        name = src[:-2].replace("-", "_")
        if src != "options.c":
            f.append("-Dmain=tool_main_" + name)
        p = subprocess.run(["gcc"] + f + ["-c", "-o", os.path.join(outdir, obj), os.path.join(repo, "examples", src)], capture_output=True, text=True, cwd=os.path.join(repo, "examples"))
        if p.returncode != 0:
            sys.stderr.write(p.stderr); raise SystemExit(3)
        rd = []
        for sname in ("fopen", "fopen64", "freopen", "open", "creat"):
            rd += ["--redefine-sym", "%s=simfs_%s" % (sname, sname)]
        subprocess.run(["objcopy"] + rd + [os.path.join(outdir, obj)], check=True)
    open(stamp, "w").write(key + "\n")
    print("\n".join(objs))


def tree_hash(repo, extra):
    h = hashlib.sha256()
    h.update(extra.encode())
    for sub in ("src", "include"):
        d = os.path.join(repo, sub)
        for fn in sorted(os.listdir(d)):
            if fn.endswith((".c", ".h")) or fn == "Makefile":
                h.update(fn.encode())
                with open(os.path.join(d, fn), "rb") as f:
                    h.update(f.read())
    with open(os.path.join(repo, "options.mak"), "rb") as f:
        h.update(f.read())
    with open(__file__, "rb") as f:
        h.update(f.read())
    return h.hexdigest()


def build_one(args):
    repo, outdir, cc, src, obj, flags, redirect = args
    srcp = os.path.join(repo, "src", src)
    objp = os.path.join(outdir, obj)
    cmd = [cc] + flags + ["-S", "-o", "-", srcp]
    p = subprocess.run(cmd, capture_output=True, text=True, cwd=os.path.join(repo, "src"))
    if p.returncode != 0:
        return (src, False, p.stderr)
    asm = p.stdout
    ntraps = 0
    for rx, rep in TRAP_SED:
        asm, n = rx.subn(rep, asm)
        ntraps += n
    asmflags = [f for f in flags if f.startswith(("-m", "-fsanitize", "-g"))]
    p2 = subprocess.run([cc, "-c", "-x", "assembler", "-", "-o", objp] + [f for f in asmflags if re.match(r"-m(sse|avx|fpu|arch|tune|no-)", f)],
                        input=asm, capture_output=True, text=True)
    if p2.returncode != 0:
        return (src, False, p2.stderr)
    if redirect:
        rd = []
        for s in ALLOC_SYMS:
            rd += ["--redefine-sym", "%s=simheap_%s" % (s, s)]
        p3 = subprocess.run(["objcopy"] + rd + [objp], capture_output=True, text=True)
        if p3.returncode != 0:
            return (src, False, p3.stderr)
    return (src, True, ntraps)


def main():
    ap = argparse.ArgumentParser()
    ap.add_argument("flavour")
    ap.add_argument("outdir")
    ap.add_argument("--repo", default="/repo")
    ap.add_argument("--cc", default=None)
    ap.add_argument("--opt", default=None)
    ap.add_argument("--def", dest="defs", action="append", default=[])
    ap.add_argument("--extra", action="append", default=[])
    ap.add_argument("--no-redirect", action="store_true")
    ap.add_argument("--makevar", action="append", default=[], help="variable assignment handed to the repository's make (e.g. VEC256_CFLAGS=): the configuration mechanism of options.mak")
    a = ap.parse_args()

    a.outdir = os.path.abspath(a.outdir)
    fl = a.flavour
    if fl == "tools":
        build_tools(a.repo, a.outdir)
        return
    variant = ""
    if fl.startswith("tsanhook_"):
        fl, variant = "tsanhook", fl.split("_", 1)[1]
    if fl.startswith("cthook_"):
        fl, variant = "cthook", fl.split("_", 1)[1]
    if fl == "plain_clang":       # the repository's flags, compiled by the other compiler (no sanitizer)
        fl, variant = "plain", "clang"
    cc = a.cc or ("clang" if fl == "asan" or variant == "clang" else "gcc")
    lines = repo_compile_lines(a.repo, a.makevar)
    extra = []
    opt = a.opt
    if fl == "o0":
        opt = opt or "-O0"
    elif fl == "asan":
        opt = opt or "-O1"
        extra += ["-fsanitize=address,undefined", "-fno-sanitize=alignment",
                  "-fsanitize-undefined-trap-on-error", "-fno-omit-frame-pointer", "-g"]
    elif fl == "tsanhook":
        if variant == "o0":
            opt = opt or "-O0"
        extra += ["-fsanitize=thread", "-g"]
        if cc.startswith("clang"):
            extra += ["-fsanitize-coverage=trace-pc-guard"]
        else:
            extra += ["-fsanitize-coverage=trace-pc"]
    elif fl == "cthook":
        # ctsim (C08): every load and store of library code, INCLUDING reads of constant tables (which -fsanitize=thread
        # does not instrument), becomes an out-of-line call into our own call-backs; basic blocks through trace-pc.
        if variant == "o0":
            opt = opt or "-O0"
        if cc.startswith("clang"):
            extra += ["-fsanitize=kernel-address", "-mllvm", "-asan-instrumentation-with-call-threshold=0", "-mllvm", "-asan-globals=0", "-mllvm", "-asan-stack=0",
                      "-fsanitize-coverage=trace-pc-guard", "-g"]
        else:
            extra += ["-fsanitize=kernel-address", "--param", "asan-instrumentation-with-call-threshold=0", "--param", "asan-globals=0", "--param", "asan-stack=0",
                      "-fsanitize-coverage=trace-pc", "-g"]
    elif fl in ("plain", "cfg"):
        pass
    else:
        raise SystemExit("unknown flavour " + fl)
    for d in a.defs:
        extra.append("-D" + d)
    extra += a.extra
    # -w: the dry-run flags contain -Wall -Wextra; warnings are not our business
    key = tree_hash(a.repo, json.dumps([fl, variant, cc, opt, extra, a.no_redirect, a.makevar]))
    os.makedirs(a.outdir, exist_ok=True)
    stamp = os.path.join(a.outdir, "STAMP")
    objs = [os.path.join(a.outdir, o) for _, o, _ in lines]
    if os.path.exists(stamp) and open(stamp).read().strip() == key and all(os.path.exists(o) for o in objs):
        print("\n".join(objs))
        return
    if os.path.exists(stamp):
        os.unlink(stamp)
    jobs = []
    for src, obj, flags in lines:
        f = list(flags)
        if opt:
            f = [opt if re.fullmatch(r"-O[0-3sg]?", x) else x for x in f]
        f = [x for x in f if x not in ("-Wall", "-Wextra")] + ["-w"] + extra
        jobs.append((a.repo, a.outdir, cc, src, obj, f, not a.no_redirect))
    ok = True
    traps = 0
    with concurrent.futures.ThreadPoolExecutor(max_workers=16) as ex:
        for src, good, info in ex.map(build_one, jobs):
            if not good:
                ok = False
                sys.stderr.write("buildlib: %s failed:\n%s\n" % (src, info))
            else:
                traps += info
    if not ok:
        raise SystemExit(3)
    with open(os.path.join(a.outdir, "TRAPS"), "w") as f:
        f.write("%d\n" % traps)
    with open(stamp, "w") as f:
        f.write(key + "\n")
    print("\n".join(objs))


if __name__ == "__main__":
    main()
