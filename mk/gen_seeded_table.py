#!/usr/bin/env python3
"""Regenerates DESIGN.md section 13.5 (table of seeded changes) from seeded/*/meta.json."""
import json, os, glob, re
V = os.path.dirname(os.path.dirname(os.path.abspath(__file__)))
rows = []
for p in sorted(glob.glob(os.path.join(V, "seeded", "*", "meta.json"))):
    d = json.load(open(p))
    rd = os.path.join(os.path.dirname(p), "README.txt")
    first = ""
    if os.path.exists(rd):
        paras = [" ".join(x.split()) for x in re.split(r"\n\s*\n", open(rd, errors="replace").read()) if x.strip()]
        paras = [x for x in paras if not re.fullmatch(r"[=\-~ ]+", x)]
        first = re.sub(r"[=|]+", " ", paras[0])[:230] if paras else ""
        if len(first) < 60 and len(paras) > 1:
            first = (first + " " + re.sub(r"[=|]+", " ", paras[1]))[:230]
    rows.append((d["name"], d["breaks_property"], first, "; ".join("%s `%s`" % (k, v[0]) for k, v in sorted(d["caught_by"].items())), ", ".join(d["missed_by"]) or "–", d.get("note", "")))
n1 = sum(1 for r in rows if not r[0].startswith("r")); n2 = sum(1 for r in rows if r[0].startswith("r2-")); n3 = sum(1 for r in rows if r[0].startswith("r3-"))
n4 = sum(1 for r in rows if r[0].startswith("r4-")); n5 = sum(1 for r in rows if r[0].startswith("r5-")); n6 = sum(1 for r in rows if r[0].startswith("r6-"))
t = "### 13.5 Seeded changes and which check catches which\n\n"
t += ("%d changes written by independent sub-agents in six rounds (%d + %d + %d + %d + %d + %d).  Each agent was given only one property's text and its own scratch worktree (rounds 2 and 3 additionally one-line summaries of the earlier ideas for that property, to force different mechanisms and locations, and were asked for hard-to-find defects: rare trigger values, long histories, very large inputs, state surviving re-initialisation, rarely used variants; rounds 4 to 6 - one agent per property, all eighteen, twice - were in addition pointed at one area of the property each, e.g. \"which bytes are wiped\", \"the CPU probe\", \"compiler- and optimisation-dependent behaviour\").  "
      "Every change was confirmed independently with `mk/verify_seeded.sh` (unchanged tree: demonstration passes; changed tree: builds, suite 30/30, demonstration fails) and then run against the quick tier of the target property and one neighbour with `mk/try_patch.sh` / `mk/seeded_batch.py`.  "
      "Stored under `seeded/<name>/` (patch.diff, demonstration, README.txt, meta.json).  \"silent\" lists neighbouring checks that were run and rightly or wrongly said nothing.\n\n" % (len(rows), n1, n2, n3, n4, n5, n6))
t += "| change | target | what it is (from the author's README) | caught by (first signature) | silent | note |\n|---|---|---|---|---|---|\n"
for r in rows:
    t += "| %s | %s | %s | %s | %s | %s |\n" % r
t += ("\n**Result.**  Every seeded change is caught by the check of the property it targets, except where the mechanism belongs to another property, in which case that property's check catches it: "
      "C07-2, r2-C04-2 (need a non-shipped build configuration: C12), C13-1, r2-C07-2 (cached probe / static scratch buffer, bit-exact single-threaded: C18), r2-C13-2, r2-C15-2 (need an allocation failure: C16; C13 and C15 were afterwards given allocation-failure injection as well and now catch them themselves).  "
      "**The most important miss was r3-C08-1**: a table look-up indexed by secret data in a 32-bit-word path was invisible to ctsim, because the compiler's thread-sanitizer instrumentation does not report reads of constant data at all; ctsim now uses out-of-line address-sanitizer-style call-backs (flavour `cthook`) that see every load and store, and runs a 32-bit-word build in the quick tier.  r3-C18-1 exposed two defects of the machinery (no run-time entry points for C11 atomics: link failure; no step budget: hang), r3-C13-2 made C13 build-configuration aware, r3-C20-1 needed `fopen` mode semantics and pre-existing output files in SimFS.  "
      "Other misses that led to strengthening: C10-2 (tool option order), C19-1 (related tweaks), r2-C13-2 / r2-C15-2 (fault injection added to C13/C15 generators); anticipated from round-2 summaries and added before the checks were run: prefix-of-previous tweaks, set_tweak on a CTR object keyed without a tweak (C06), near-miss `-b` values (C20), failed-init objects in C14's histories.  "
      "**Rounds 4 and 5** (36 changes) found seven more blind spots, all closed: r5-C11-2 (a parallel call that spins for ever) showed that the liveness watchdog was never armed in forked workers (interval timers are not inherited) - the check hung instead of reporting; r5-C13-1/-2 needed CPU models that answer *unrelated* CPUID leaves the way real parts do; r4-C12-1 (an `int` block index) needed requests above 2^31 bytes (hugesim); r5-C15-1 needed handle storage holding the byte image of another live object; r5-C11-1 needed the dual-world mode to execute calls that have no model; r5-C04-2 needed the CTR object to be re-keyed while it holds a tweak; r4-C17-1 needed C17 to look at what survives a cleanup that frees nothing; r4-C03-2 needs a non-little-endian 64-bit configuration and is C12's.  "
      "**Round 6** (36 changes, new areas per property) found five more: r6-C13-2 (a back end compiled out for 32-bit words but still offered) needed C13 on a 32-bit-word build with SIMD; r6-C14-1 needed NULL data pointers with size 0 in the model (the property makes no exception for them and every shipped back end returns 0); r6-C19-1 needed `clear(); setKey(); encrypt()` without `setIV()` to be a defined history of the Arduino CTR class (clear leaves the zero counter); r6-C19-2 needed the CTR template over 64-bit-block classes (refuse the key, or match the C library's 64-bit CTR); r6-C03-1/-2 (32-bit-word decrypt paths) and r6-C04-1 (in-between key size) are C12's and C10's and were caught there.  r6-C15-1 repeats the mechanism of r5-C11-1 and is caught by C11.  "
      "Six round-1 results first looked like misses because the *report* of a found violation crashed on a truncated JSON string (fixed: `strf` is unbounded now and `./check` turns any exception of the machinery into exit 2, never 1).\n\n"
      "Own mutants used while building (all caught, not stored as directories): static result cache in `_skinny_has_vec128` (C18), `if (!inc) break;` in `skinny128_ctr_increment` (C08), wrong mask in the 32-bit `skinny128_permute_tk` (C12), `% 16` instead of `% block_size` in skinny-ecb (C20), partial `memset` for the NULL tweak in `Skinny64_Tweaked::setTweak` (C19), a 24-byte `memset` into a 16-byte stack block (caught as `sanitizer-report` by the ASan flavour only), and the eight original defects D1-D8 themselves (reverting any `fix:` commit re-creates a seeded change with a known signature, 13.3).\n")
s = open(os.path.join(V, "DESIGN.md")).read()
a = s.index("### 13.5 Seeded changes")
b = s.index("False-alarm corpus:", a)
s = s[:a] + t + "\n" + s[b:]
open(os.path.join(V, "DESIGN.md"), "w").write(s)
print("13.5 regenerated:", len(rows), "rows")
