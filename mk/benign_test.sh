#!/bin/sh
# Runs every quick check against behaviour-preserving patches: all must stay silent.
# usage: mk/benign_test.sh [patch...]   (default: benign/*.diff)
cd /verif
ALL="C03 C04 C05 C06 C07 C08 C09 C10 C11 C12 C13 C14 C15 C16 C17 C18 C19 C20"
[ $# -gt 0 ] || set -- benign/*.diff
for p in "$@"; do
  LINES_MAX=6 mk/try_patch.sh "$p" $ALL 2>&1 | grep -E "^===|^---- |VIOLATION|HARNESS|KNOWN|violation\(s\)" | grep -v " 0 violation(s), 0 known" | awk '/^===/{h=$0; next} {if (h!="") {print h; h=""} print}' | cut -c1-260
  echo "--- done $p"
done
