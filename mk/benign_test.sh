#!/bin/sh
# Runs every quick check against every behaviour-preserving patch in /verif/benign: all must stay silent.
cd /verif
ALL="C03 C04 C05 C06 C07 C08 C09 C10 C11 C12 C13 C14 C15 C16 C17 C18 C19 C20"
for p in ${1:-benign/*.diff}; do
  LINES_MAX=4 mk/try_patch.sh "$p" $ALL 2>&1 | grep -E "^===|VIOLATION|HARNESS|KNOWN|violation\(s\)" | grep -v " 0 violation(s), 0 known" 
  echo "--- done $p"
done
