// thrsim: thread-interleaving simulator (C18; DESIGN.md 2.5, 3.3, 5/C18).
// Tasks are coroutines inside one OS thread; every compiler-visible memory access of library
// code (TSan-hook build) is a point where the seeded scheduler may switch tasks and an event
// for the race and global-write monitors.  One seed = one interleaving, down to the single
// load and store.
#include "gen.hpp"
#include "tsanrt.hpp"
#include "pool.hpp"
#include <ucontext.h>
#include <chrono>
#include <fcntl.h>

static std::string g_flavour = "tsanhook";
#define FLAVOUR (g_flavour.c_str())
extern char __data_start, _end, __executable_start;

Probes g_probes; Coverage g_cover; SpecSkinny g_spec;   // (interp.cpp is not linked into thrsim)

// ----------------------------------------------------------------------------- run description
struct Seg { int task; uint32_t quantum; };
struct ThrRun {
    int cpu = 1;
    int scenario = 0;                 // 0 distinct objects, 1 shared read-only object, 2 concurrent init/cleanup
    Plan setup;                       // shared object (slot 0) set-up, executed before the tasks start
    std::vector<Plan> tasks;          // slot 0 of every task is the shared object in scenario 1
    int sched_mode = 0;               // 0..2: pre-empt with p = 1/4, 1/32, 1/256; 3: few change points
    uint64_t sched_seed = 0;
    std::vector<Seg> explicit_sched;  // replay: follow exactly these segments
};

static ThrRun make_run(uint64_t seed, uint64_t run) {
    Rng r(seed, run, "thr");
    ThrRun R; R.cpu = r.below(3); R.scenario = run % 3; R.sched_mode = r.below(4); R.sched_seed = r.next();
    int T = 2 + r.below(3);
    if (R.scenario == 1) {
        static const int SH[] = {K128, TK128, K64, TK64, MK, P128, P64, PM};
        int kind = SH[r.below(8)];
        Gen G(Rng(r.next()));
        int s = G.add_slot(kind);
        if (is_obj(kind)) G.init(s, R.cpu);
        G.valid_key(s, r.chance(3, 4));
        if ((G.g[s].tweaked || kind == MK) && r.chance(1, 2)) G.settweak(s, 3);
        R.setup = G.p;
        for (int t = 0; t < T; ++t) {
            Gen H(Rng(r.next())); H.add_slot(kind); H.g[0] = G.g[0];
            int n = 3 + H.r.below(12);
            for (int i = 0; i < n; ++i) { if (is_par(kind)) H.par(0, H.r.below(20), H.r.chance(1, 2)); else H.block(0); }
            R.tasks.push_back(H.p);
        }
    } else {
        for (int t = 0; t < T; ++t) {
            Gen G(Rng(r.next()));
            int nobj = 1 + G.r.below(2);
            for (int i = 0; i < nobj; ++i) G.add_slot(R.scenario == 2 || G.r.chance(3, 4) ? OBJ_KINDS[G.r.below(6)] : KS_KINDS[G.r.below(5)]);
            int n = 4 + G.r.below(16);
            for (int i = 0; i < n; ++i) {
                int s = G.r.below(nobj);
                if (R.scenario == 2 && is_obj(G.g[s].kind)) {
                    // fault: an allocation made by THIS task's init fails while the other tasks carry on (the failure must stay private to the task)
                    if (G.g[s].life != L_INIT) G.init(s, R.cpu, G.r.chance(1, 5) ? 1 + (int)G.r.chance(1, 4) : 0); else if (G.r.chance(1, 2)) G.cleanup(s); else G.free_step(s, true, 60, true);
                } else {
                    if (is_obj(G.g[s].kind) && G.g[s].life != L_INIT) G.init(s, R.cpu, G.r.chance(1, 12) ? 1 : 0); else G.free_step(s, true, 150, false);
                }
            }
            R.tasks.push_back(G.p);
        }
    }
    return R;
}

// ----------------------------------------------------------------------------- lean executor (no guard pages: tasks interleave)
struct TaskObs { int ret; Bytes out; };
struct TaskState {
    std::vector<uint8_t *> h;       // handle per slot
    std::vector<char> live;         // slot currently holds an initialised object (a second init would be the caller's leak: skipped)
    std::vector<TaskObs> obs;
};

static uint8_t *g_caller_mem;        // fixed-address bump arena for handles (deterministic addresses)
static size_t g_caller_used;
static uint8_t *caller_alloc(size_t n) { n = (n + 63) & ~(size_t)63; uint8_t *p = g_caller_mem + g_caller_used; g_caller_used += n + 64; memset(p, 0, n); return p; }

static uint64_t g_budget = 0;        // instrumented accesses left in this simulated run (bounded liveness)
static void exec_op(const Plan &p, const Op &o, TaskState &ts, TaskObs &ob) {
    ++g_call_seq;
    int k = p.slots[o.slot]; unsigned bs = kind_bs(k);
    void *obj = (o.flags & F_NULLOBJ) ? nullptr : ts.h[o.slot];
    // every buffer the library sees comes from the caller arena, which is never reused within a
    // run, so the race monitor cannot mistake allocator reuse for sharing
    struct Buf { uint8_t *p; size_t n; uint8_t *data() { return p; } size_t size() const { return n; }
                 void set(const Bytes &v, size_t minlen) { n = std::max(v.size(), minlen); p = caller_alloc(n + 1); if (!v.empty()) memcpy(p, v.data(), v.size()); } };
    Buf a, b, out;
    a.set(o.a, o.code >= OP_BENC && o.code <= OP_BTWK ? bs : 0); b.set(o.b, o.code == OP_BTWK ? 8 : 0); out.set(Bytes(), a.size());
    const void *pa = (o.flags & F_NULLA) ? nullptr : a.data();
    int ret = -1;
    switch (o.code) {
    case OP_INIT:
        if (ts.live.size() <= (size_t)o.slot) ts.live.resize(o.slot + 1, 0);
        if (obj && ts.live[o.slot]) { ob.ret = -2; return; }
        g_heap.begin_op(0, o.failalloc); ret = lib_init(k, obj); g_heap.fail_at = 0;
        if (obj && ret) ts.live[o.slot] = 1;
        if (ret && obj) { int be = lib_backend(k, obj); uint64_t ps = is_par(k) ? lib_parallel_size(k, obj) : 0; ob.out.resize(12); memcpy(&ob.out[0], &be, 4); memcpy(&ob.out[4], &ps, 8); ob.ret = ret; return; }   // the selected back end must not depend on the interleaving
        break;
    case OP_CLEANUP: lib_cleanup(k, obj); if (obj && ts.live.size() > (size_t)o.slot) ts.live[o.slot] = 0; break;
    case OP_ZERO: break;
    case OP_SETKEY: ret = lib_setkey(k, obj, pa, o.size, o.rounds, o.mode); break;
    case OP_SETTKEY: ret = lib_settkey(k, obj, pa, o.size); break;
    case OP_SETTWEAK: ret = lib_settweak(k, obj, pa, o.size); break;
    case OP_SETCTR: ret = lib_setctr(k, obj, pa, o.size); break;
    case OP_ENC: if (o.flags & F_INPLACE) { out = a; ret = lib_enc(k, out.data(), out.data(), o.size, obj); } else ret = lib_enc(k, out.data(), a.data(), o.size, obj); break;
    case OP_PENC: case OP_PDEC: if (o.flags & F_INPLACE) { out = a; ret = lib_par(k, o.code == OP_PDEC, out.data(), out.data(), b.data(), o.size, obj); } else ret = lib_par(k, o.code == OP_PDEC, out.data(), a.data(), b.data(), o.size, obj); break;
    case OP_BENC: case OP_BDEC: case OP_BTWK: lib_block(k, o.code, out.data(), a.data(), b.data(), obj); break;
    case OP_SWAP: lib_swap(k, obj); break;
    }
    ob.ret = ret;
    if (o.code == OP_ENC || o.code == OP_PENC || o.code == OP_PDEC || (o.code >= OP_BENC && o.code <= OP_BTWK)) ob.out.assign(out.data(), out.data() + out.size()); else ob.out.clear();
}

// ----------------------------------------------------------------------------- scheduler and monitors
struct Task { int id; ucontext_t ctx; const Plan *plan; TaskState st; bool done = false; uint64_t accesses = 0; uint32_t quantum = 0; uint8_t *stack_lo, *stack_hi;
              int h_fail = 0, h_allocs = 0;
              std::vector<uint8_t> tls; };        // this simulated thread's copy of the image's thread-local storage    // the allocation-failure fault is attached to an operation of ONE task: its counters travel with the task
static std::vector<Task> g_tasks; static Task *g_cur = nullptr;
static ucontext_t g_sched_ctx;
static const size_t TSTACK = 1u << 20;
static uint8_t *g_tstacks;
static uintptr_t g_exe_base = 0;

struct Cell { uint64_t gen; uintptr_t gran; uint8_t w[4], r[4]; void *wpc[4], *rpc[4]; };
static const size_t NCELL = 1u << 16;
static Cell *g_cells; static uint64_t g_gen = 1;
struct MonFinding { std::string kind, msg; };
static std::vector<MonFinding> g_findings;
static uint64_t g_recorded = 0, g_switches = 0; static uint64_t g_sched_hash = 0;
static std::vector<Seg> g_segments;

static std::string pcs(void *pc) { return strf("pc+0x%lx", (unsigned long)((uintptr_t)pc - g_exe_base)); }

static bool g_table_full = false; static uint64_t g_cells_used = 0;
static void record_access(Task *t, uintptr_t addr, unsigned size, int wr, void *pc) {
    if (g_table_full) return;
    // hidden mutable global state: a write by library code into .data/.bss
    if (wr && addr >= (uintptr_t)&__data_start && addr < (uintptr_t)&_end) {
        if (g_findings.size() < 4) g_findings.push_back({"global-write", strf("task %d: library code wrote %u byte(s) to static storage at image offset 0x%lx (%s): hidden mutable global state", t->id, size, (unsigned long)(addr - g_exe_base), pcs(pc).c_str())});
    }
    uintptr_t end = addr + size;
    for (uintptr_t g = addr >> 3; g <= (end - 1) >> 3; ++g) {
        uintptr_t lo = std::max(addr, g << 3), hi = std::min(end, (g + 1) << 3);
        uint8_t mask = (uint8_t)(((1u << (hi - lo)) - 1) << (lo & 7));
        size_t idx = (size_t)(mix64(g) & (NCELL - 1));
        Cell *c;
        size_t probes = 0;
        for (;;) { c = &g_cells[idx]; if (c->gen != g_gen) { memset(c, 0, sizeof *c); c->gen = g_gen; c->gran = g; if (++g_cells_used > NCELL / 2) g_table_full = true; break; } if (c->gran == g) break; idx = (idx + 1) & (NCELL - 1); if (++probes >= 64) { g_table_full = true; return; } /* crowded table: stop recording, the budget will end the run */ }
        for (int u = 0; u < 4; ++u) {
            if (u == t->id) continue;
            uint8_t conflict = wr ? (uint8_t)((c->w[u] | c->r[u]) & mask) : (uint8_t)(c->w[u] & mask);
            if (conflict && g_findings.size() < 4) {
                bool otherw = (c->w[u] & mask) != 0;
                g_findings.push_back({"data-race", strf("tasks %d and %d access the same memory (%s) without synchronisation: task %d %s at %s, task %d %s at %s",
                                                        t->id, u, classify_addr((void *)lo).c_str(), t->id, wr ? "writes" : "reads", pcs(pc).c_str(), u, otherw ? "wrote" : "read", pcs(otherw ? c->wpc[u] : c->rpc[u]).c_str())});
            }
        }
        if (wr) { c->w[t->id] |= mask; c->wpc[t->id] = pc; } else { c->r[t->id] |= mask; c->rpc[t->id] = pc; }
    }
    ++g_recorded;
}

static void out_of_budget() {
    g_crash.sig = -2; g_crash.addr = 0; g_crash.where = "step budget of the simulated run exhausted: runaway loop or livelock";
    siglongjmp(g_crash_jmp, 1);
}
static void thr_mem(void *addr, unsigned size, int wr, void *pc) {
    Task *t = g_cur;
    if (g_budget && --g_budget == 0) out_of_budget();
    if (size > (1u << 20)) out_of_budget();          // a single access range of more than a MiB: a length has run away
    if (size > 64) { uint64_t cost = size / 8; if (g_budget <= cost) out_of_budget(); g_budget -= cost; }
    if (!t) {
        // sequential reference phase: no scheduling, but a write to static storage is hidden global state all the same
        if (wr && (uintptr_t)addr >= (uintptr_t)&__data_start && (uintptr_t)addr < (uintptr_t)&_end && g_findings.size() < 4)
            g_findings.push_back({"global-write", strf("library code wrote %u byte(s) to static storage at image offset 0x%lx (%s) while a single task was running alone: hidden mutable global state", size, (unsigned long)((uintptr_t)addr - g_exe_base), pcs(pc).c_str())});
        return;
    }
    ++t->accesses;
    uint8_t *a = (uint8_t *)addr;
    if (!(a >= t->stack_lo && a < t->stack_hi) && !in_thread_local_storage(a)) record_access(t, (uintptr_t)addr, size ? size : 1, wr, pc);   // stack and thread-local storage are private to the task
    if (t->quantum && --t->quantum == 0) { swapcontext(&t->ctx, &g_sched_ctx); }
}

// atomics: a point where the scheduler may switch, never a data race by themselves; a write to static storage is
// hidden mutable global state whether it is atomic or not
static void thr_atomic(void *addr, unsigned size, int wr, void *pc) {
    Task *t = g_cur;
    if (wr && (uintptr_t)addr >= (uintptr_t)&__data_start && (uintptr_t)addr < (uintptr_t)&_end && g_findings.size() < 4)
        g_findings.push_back({"global-write", strf("%s: library code wrote %u byte(s) atomically to static storage at image offset 0x%lx (%s): hidden mutable global state", t ? strf("task %d", t->id).c_str() : "a task running alone", size, (unsigned long)((uintptr_t)addr - g_exe_base), pcs(pc).c_str())});
    if (!t) return;
    ++t->accesses;
    if (t->quantum && --t->quantum == 0) swapcontext(&t->ctx, &g_sched_ctx);
}

static void task_entry() {
    Task *t = g_cur;
    for (size_t i = 0; i < t->plan->ops.size(); ++i) exec_op(*t->plan, t->plan->ops[i], t->st, t->st.obs[i]);
    t->done = true;
    swapcontext(&t->ctx, &g_sched_ctx);
}

struct ThrOutcome { std::vector<MonFinding> findings; uint64_t fingerprint = 0, accesses = 0, switches = 0, recorded = 0, sched_hash = 0; std::vector<Seg> segments; };

static void alloc_handles(const ThrRun &R, std::vector<TaskState> &sts, TaskState &shared) {
    g_caller_used = 0;
    shared.h.clear(); shared.obs.clear(); shared.live.clear();
    for (int k : R.setup.slots) shared.h.push_back(caller_alloc(handle_size(k)));
    shared.obs.resize(R.setup.ops.size());
    sts.assign(R.tasks.size(), TaskState());
    for (size_t t = 0; t < R.tasks.size(); ++t) {
        for (size_t s = 0; s < R.tasks[t].slots.size(); ++s) {
            if (R.scenario == 1 && s == 0) sts[t].h.push_back(shared.h[0]); else sts[t].h.push_back(caller_alloc(handle_size(R.tasks[t].slots[s])));
        }
        sts[t].obs.resize(R.tasks[t].ops.size());
    }
}
static void final_cleanup(const ThrRun &R, std::vector<TaskState> &sts, TaskState &shared) {
    for (size_t t = 0; t < R.tasks.size(); ++t) for (size_t s = 0; s < R.tasks[t].slots.size(); ++s) { if (R.scenario == 1 && s == 0) continue; if (is_obj(R.tasks[t].slots[s])) lib_cleanup(R.tasks[t].slots[s], sts[t].h[s]); }
    for (size_t s = 0; s < R.setup.slots.size(); ++s) if (is_obj(R.setup.slots[s])) lib_cleanup(R.setup.slots[s], shared.h[s]);
}

static ThrOutcome simulate(const ThrRun &R) {
    ThrOutcome O;
    g_findings.clear(); g_recorded = 0; g_switches = 0; g_sched_hash = 0; g_segments.clear(); ++g_gen;
    g_budget = 40000000; g_table_full = false; g_cells_used = 0;     // two orders of magnitude above the largest legitimate run
    size_t T = R.tasks.size(); if (T > 4) T = 4;
    // ---- sequential reference: every task alone
    std::vector<TaskState> ref; TaskState sh;
    g_cpu.set(cpu_pin_model(R.cpu));
    volatile int phase = 0;
    if (sigsetjmp(g_crash_jmp, 1) != 0) {
        g_in_lib = 0; g_cur = nullptr; g_heap.end_run();
        if (g_crash.sig == -2 || g_crash.sig == SIGALRM) O.findings.push_back({"no-progress", strf("%s phase: %s", phase ? "concurrent" : "sequential reference", g_crash.where)});
        else O.findings.push_back({"crash", strf("fault inside the library during the %s phase: signal %d touching %s", phase ? "concurrent" : "sequential reference", g_crash.sig, classify_addr((void *)g_crash.addr).c_str())});
        for (auto &f : g_findings) O.findings.push_back(f);
        return O;
    }
    g_in_lib = 1;
    for (size_t t = 0; t < T; ++t) {
        EventLog lg; g_heap.begin_run(0x11, Rng(7), nullptr); g_heap.forced_placement = PLACE_A32;
        exe_tls_reset();
        std::vector<TaskState> one; alloc_handles(R, one, sh);
        for (size_t i = 0; i < R.setup.ops.size(); ++i) exec_op(R.setup, R.setup.ops[i], sh, sh.obs[i]);
        for (size_t i = 0; i < R.tasks[t].ops.size(); ++i) exec_op(R.tasks[t], R.tasks[t].ops[i], one[t], one[t].obs[i]);
        ref.push_back(one[t]);
        std::vector<TaskState> only(R.tasks.size()); only[t] = one[t];
        for (size_t s = 0; s < R.tasks[t].slots.size(); ++s) { if (R.scenario == 1 && s == 0) continue; if (is_obj(R.tasks[t].slots[s])) lib_cleanup(R.tasks[t].slots[s], one[t].h[s]); }
        for (size_t s = 0; s < R.setup.slots.size(); ++s) if (is_obj(R.setup.slots[s])) lib_cleanup(R.setup.slots[s], sh.h[s]);
        g_heap.end_run();
    }
    // ---- concurrent execution under the seeded scheduler
    phase = 1;
    g_heap.begin_run(0x11, Rng(7), nullptr); g_heap.forced_placement = PLACE_A32;
    exe_tls_reset();
    std::vector<TaskState> sts; alloc_handles(R, sts, sh);
    for (size_t i = 0; i < R.setup.ops.size(); ++i) exec_op(R.setup, R.setup.ops[i], sh, sh.obs[i]);
    g_tasks.assign(T, Task());
    for (size_t t = 0; t < T; ++t) {
        Task &k = g_tasks[t]; k.id = (int)t; k.plan = &R.tasks[t]; k.st = sts[t];
        k.stack_lo = g_tstacks + t * (TSTACK + 8192) + 4096; k.stack_hi = k.stack_lo + TSTACK;
        getcontext(&k.ctx); k.ctx.uc_stack.ss_sp = k.stack_lo; k.ctx.uc_stack.ss_size = TSTACK; k.ctx.uc_link = &g_sched_ctx;
        makecontext(&k.ctx, task_entry, 0);
    }
    // every simulated thread starts with the initial image of thread-local storage (a no-op while the library has none)
    const bool tls_on = exe_tls().memsz != 0; std::vector<uint8_t> sched_tls;
    if (tls_on) { exe_tls_save(sched_tls); exe_tls_reset(); for (size_t t = 0; t < T; ++t) exe_tls_save(g_tasks[t].tls); exe_tls_load(sched_tls); }
    Rng sr(R.sched_seed);
    static const uint32_t PDEN[] = {4, 32, 256};
    size_t seg_i = 0; int change_points = 1 + sr.below(3);
    for (;;) {
        std::vector<int> runnable; for (size_t t = 0; t < T; ++t) if (!g_tasks[t].done) runnable.push_back((int)t);
        if (runnable.empty()) break;
        int pick; uint32_t q;
        if (!R.explicit_sched.empty()) {
            if (seg_i < R.explicit_sched.size()) { pick = R.explicit_sched[seg_i].task; q = R.explicit_sched[seg_i].quantum; ++seg_i; if (pick >= (int)T || g_tasks[pick].done) continue; }
            else { pick = runnable[0]; q = 0; }
        } else if (R.sched_mode < 3) {
            pick = runnable[sr.below((uint32_t)runnable.size())];
            uint32_t den = PDEN[R.sched_mode]; q = 1; while (!sr.chance(1, den) && q < 100000) ++q;     // geometric: pre-empt with probability 1/den per access
        } else {
            pick = runnable[sr.below((uint32_t)runnable.size())];
            if (change_points > 0) { q = 1 + sr.below(4000); --change_points; } else q = 0;               // then run to completion
        }
        Task &k = g_tasks[pick];
        k.quantum = q; uint64_t before = k.accesses;
        g_cur = &k; ++g_switches;
        g_heap.fail_at = k.h_fail; g_heap.allocs_in_op = k.h_allocs;
        if (tls_on) { exe_tls_save(sched_tls); exe_tls_load(k.tls); }
        swapcontext(&g_sched_ctx, &k.ctx);
        if (tls_on) { exe_tls_save(k.tls); exe_tls_load(sched_tls); }
        k.h_fail = g_heap.fail_at; k.h_allocs = g_heap.allocs_in_op; g_heap.fail_at = 0;
        g_cur = nullptr;
        uint32_t used = (uint32_t)(k.accesses - before);
        g_segments.push_back({pick, k.done ? 0u : used});
        g_sched_hash = hash_comb(g_sched_hash, (uint64_t)pick << 32 | used);
    }
    for (size_t t = 0; t < T; ++t) sts[t] = g_tasks[t].st;
    final_cleanup(R, sts, sh);
    g_in_lib = 0;
    int live = g_heap.live_count();
    g_heap.end_run(); g_cpu.set(nullptr);
    // ---- oracles
    for (size_t t = 0; t < T && O.findings.empty(); ++t) for (size_t i = 0; i < sts[t].obs.size(); ++i) {
        const TaskObs &x = sts[t].obs[i], &y = ref[t].obs[i];
        if ((x.ret != 0) != (y.ret != 0) || x.out != y.out) {
            O.findings.push_back({"differs-from-sequential", strf("task %zu, %s: concurrent result (ret %d, out %s) differs from the same history run alone (ret %d, out %s)", t, op_brief(R.tasks[t], R.tasks[t].ops[i]).c_str(), x.ret, hex(x.out.data(), std::min<size_t>(x.out.size(), 16)).c_str(), y.ret, hex(y.out.data(), std::min<size_t>(y.out.size(), 16)).c_str())});
            break;
        }
    }
    if (live && O.findings.empty()) O.findings.push_back({"leak", strf("%d heap block(s) still live after every object of every task was cleaned up", live)});
    for (auto &f : g_findings) O.findings.push_back(f);
    uint64_t fp = g_sched_hash;
    for (size_t t = 0; t < T; ++t) for (auto &o : sts[t].obs) fp = hash_comb(fp, hash_comb((uint64_t)(uint32_t)o.ret, o.out.empty() ? 0 : hash_bytes(o.out.data(), o.out.size())));
    O.fingerprint = fp; O.switches = g_switches; O.recorded = g_recorded; O.sched_hash = g_sched_hash; O.segments = g_segments;
    for (size_t t = 0; t < T; ++t) O.accesses += g_tasks[t].accesses;
    return O;
}

// ----------------------------------------------------------------------------- replay files
static std::string sig_of(const ThrRun &R, const MonFinding &f) { return f.kind + ":scenario" + std::to_string(R.scenario); }
static void write_replay(const std::string &path, const ThrRun &R, uint64_t seed, uint64_t run, const MonFinding &f, const std::vector<Seg> &segs) {
    std::ofstream o(path);
    o << "# thrsim replay file: explicit tasks and explicit schedule segments (task:accesses)\nengine thrsim\nprop C18\nflavour " << FLAVOUR << "\nseed " << seed << "\nrun " << run << "\n";
    o << "expect " << f.kind << "\nsig " << sig_of(R, f) << "\n# violation: " << f.msg << "\n";
    o << "cpu " << R.cpu << "\nscenario " << R.scenario << "\nsched";
    for (auto &s : segs) o << " " << s.task << ":" << s.quantum;
    o << "\nsetup\n" << plan_to_text(R.setup);
    for (size_t t = 0; t < R.tasks.size(); ++t) o << "task " << t << "\n" << plan_to_text(R.tasks[t]);
}
static bool read_replay(const std::string &path, ThrRun &R, std::string &expect) {
    std::ifstream f(path); if (!f) return false; std::string ln; Plan *cur = nullptr;
    while (std::getline(f, ln)) {
        if (ln.empty() || ln[0] == '#') continue;
        std::istringstream is(ln); std::string t; is >> t;
        if (t == "cpu") is >> R.cpu; else if (t == "scenario") is >> R.scenario; else if (t == "expect") is >> expect;
        else if (t == "sched") { std::string s; while (is >> s) { size_t c = s.find(':'); R.explicit_sched.push_back({atoi(s.c_str()), (uint32_t)strtoul(s.c_str() + c + 1, 0, 10)}); } if (R.explicit_sched.empty()) R.explicit_sched.push_back({0, 0}); }
        else if (t == "setup") cur = &R.setup;
        else if (t == "task") { R.tasks.push_back(Plan()); cur = &R.tasks.back(); }
        else if (t == "slots" && cur) parse_slots_line(ln, *cur);
        else if (t == "op" && cur) { Op o; if (parse_op_line(ln, o)) cur->ops.push_back(o); }
    }
    return !R.tasks.empty();
}

// Every evaluation made by the parent (determinism gate, minimisation trials, final trace) runs in a
// fresh fork of the parent, which itself never executes library code: hidden state in the library
// (e.g. a cached probe) can therefore not make one evaluation depend on an earlier one.
static ThrOutcome simulate_isolated(const ThrRun &R) {
    int fd[2]; if (pipe(fd) != 0) return ThrOutcome();
    fflush(stdout); fflush(stderr);
    pid_t pid = fork();
    if (pid == 0) {
        close(fd[0]); ThrOutcome o = simulate(R); FILE *f = fdopen(fd[1], "w");
        fprintf(f, "F %llx %llx %llu %llu %llu\n", (unsigned long long)o.fingerprint, (unsigned long long)o.sched_hash, (unsigned long long)o.accesses, (unsigned long long)o.switches, (unsigned long long)o.recorded);
        for (auto &s : o.segments) fprintf(f, "G %d %u\n", s.task, s.quantum);
        for (auto &x : o.findings) { std::string m = x.msg; for (char &c : m) if (c == '\n' || c == '\t') c = ' '; fprintf(f, "V %s\t%s\n", x.kind.c_str(), m.c_str()); }
        fclose(f); _exit(0);
    }
    close(fd[1]); ThrOutcome o; FILE *f = fdopen(fd[0], "r"); char *line = nullptr; size_t cap = 0;
    while (getline(&line, &cap, f) > 0) {
        std::string ln(line); if (!ln.empty() && ln.back() == '\n') ln.pop_back();
        if (ln[0] == 'F') { unsigned long long a, b, c, d, e; if (sscanf(ln.c_str(), "F %llx %llx %llu %llu %llu", &a, &b, &c, &d, &e) == 5) { o.fingerprint = a; o.sched_hash = b; o.accesses = c; o.switches = d; o.recorded = e; } }
        else if (ln[0] == 'G') { int t; unsigned q; if (sscanf(ln.c_str(), "G %d %u", &t, &q) == 2) o.segments.push_back({t, q}); }
        else if (ln[0] == 'V') { size_t tb = ln.find('\t'); o.findings.push_back({ln.substr(2, tb - 2), tb == std::string::npos ? "" : ln.substr(tb + 1)}); }
    }
    free(line); fclose(f); int st = 0; waitpid(pid, &st, 0);
    if (!(WIFEXITED(st) && WEXITSTATUS(st) == 0)) o.findings.push_back({"worker-death", strf("the process died (status 0x%x)", st)});
    return o;
}
static bool fails_same(const ThrRun &R, const std::string &kind) { ThrOutcome o = simulate_isolated(R); for (auto &f : o.findings) if (f.kind == kind) return true; return false; }
static ThrRun minimise(ThrRun R, const std::string &kind, int &trials) {
    // drop whole tasks (keep at least 2 for races), then ddmin each task's operations
    for (size_t t = R.tasks.size(); t-- > 0 && R.tasks.size() > 1;) { ThrRun Q = R; Q.tasks.erase(Q.tasks.begin() + t); ++trials; if (fails_same(Q, kind)) R = Q; }
    for (size_t t = 0; t < R.tasks.size(); ++t) {
        size_t n = 2;
        while (R.tasks[t].ops.size() >= 2 && trials < 600) {
            size_t chunk = (R.tasks[t].ops.size() + n - 1) / n; bool red = false;
            for (size_t st = 0; st < R.tasks[t].ops.size(); st += chunk) {
                ThrRun Q = R; auto &ops = Q.tasks[t].ops; ops.erase(ops.begin() + st, ops.begin() + std::min(st + chunk, ops.size()));
                ++trials; if (fails_same(Q, kind)) { R = Q; n = std::max<size_t>(n - 1, 2); red = true; break; }
            }
            if (!red) { if (chunk <= 1) break; n = std::min(n * 2, R.tasks[t].ops.size()); }
        }
    }
    return R;
}

static std::string g_replaydir = "/verif/replays";
int main(int argc, char **argv) {
    std::string out, replay, tier = "quick", outdir = "/verif/build/out"; uint64_t seed = 1, runs = 0, first = 0; int nw = 16; bool want_fp = false;
    for (int i = 1; i < argc; ++i) {
        std::string a = argv[i]; auto nxt = [&]() { return i + 1 < argc ? std::string(argv[++i]) : std::string(); };
        if (a == "--seed") seed = strtoull(nxt().c_str(), 0, 10); else if (a == "--runs") runs = strtoull(nxt().c_str(), 0, 10); else if (a == "--first") first = strtoull(nxt().c_str(), 0, 10);
        else if (a == "--workers") nw = atoi(nxt().c_str()); else if (a == "--out") out = nxt(); else if (a == "--replay") replay = nxt(); else if (a == "--replaydir") g_replaydir = nxt(); else if (a == "--tier") tier = nxt(); else if (a == "--outdir") outdir = nxt();
        else if (a == "--fingerprints") want_fp = true; else if (a == "--prop") nxt();
    }
    disable_aslr_and_reexec(argv);
    { char buf[4096]; ssize_t n = readlink("/proc/self/exe", buf, sizeof buf - 1); if (n > 0) { buf[n] = 0; std::string e(buf); size_t b = e.rfind('/'); if (b != std::string::npos && b > 0) { size_t a = e.rfind('/', b - 1); if (a != std::string::npos) g_flavour = e.substr(a + 1, b - a - 1); } } }
    seams_init();
    g_exe_base = (uintptr_t)&__executable_start;   // image base for pc offsets
    g_caller_mem = (uint8_t *)mmap((void *)0x200060000000ULL, 16u << 20, PROT_READ | PROT_WRITE, MAP_PRIVATE | MAP_ANONYMOUS | MAP_FIXED_NOREPLACE, -1, 0);
    g_tstacks = (uint8_t *)mmap((void *)0x200070000000ULL, 4 * (TSTACK + 8192), PROT_READ | PROT_WRITE, MAP_PRIVATE | MAP_ANONYMOUS | MAP_FIXED_NOREPLACE, -1, 0);
    g_cells = (Cell *)calloc(NCELL, sizeof(Cell));
    if (g_caller_mem == MAP_FAILED || g_tstacks == MAP_FAILED || !g_cells) { fprintf(stderr, "thrsim: cannot map fixed regions\n"); return 2; }
    g_tsan.mem = thr_mem; g_tsan.atomic = thr_atomic;
    if (!replay.empty()) {
        ThrRun R; std::string expect; if (!read_replay(replay, R, expect)) { fprintf(stderr, "cannot read %s\n", replay.c_str()); return 2; }
        ThrOutcome o = simulate(R);
        for (auto &t : R.tasks) printf("%s", ("task:\n" + plan_to_text(t)).c_str());
        printf("schedule: %zu segments, %llu instrumented accesses, %llu recorded\n", o.segments.size(), (unsigned long long)o.accesses, (unsigned long long)o.recorded);
        if (o.findings.empty()) { printf("REPLAY-CLEAN property=C18 file=%s\n", replay.c_str()); return 0; }
        for (auto &f : o.findings) printf("REPLAY-VIOLATION property=C18 inv=%s fingerprint=%016llx\n    %s\n", f.kind.c_str(), (unsigned long long)o.fingerprint, f.msg.c_str());
        printf("VIOLATION property=C18 replay=%s\n", replay.c_str());
        return 1;
    }
    if (!runs) runs = tier == "thorough" ? 2000000 : 40000;
    if (system(("mkdir -p " + outdir).c_str())) {}
    auto t0 = std::chrono::steady_clock::now();
    std::set<uint64_t> scheds; uint64_t W_runs = 0, W_acc = 0, W_sw = 0, W_rec = 0, W_ops = 0; std::map<std::string, uint64_t> scen;
    PoolResult pr = run_pool(nw, first, runs, outdir + "/C18-" + std::to_string(getpid()),
        [&](uint64_t i, FILE *f) {
            ThrRun R = make_run(seed, i);
            ThrOutcome o = simulate(R);
            ++W_runs; W_acc += o.accesses; W_sw += o.switches; W_rec += o.recorded; scheds.insert(o.sched_hash);
            for (auto &t : R.tasks) W_ops += t.ops.size();
            W_ops += R.setup.ops.size();
            ++scen[strf("scenario%d.tasks%zu.sched%d.cpu%d", R.scenario, R.tasks.size(), R.sched_mode, R.cpu)];
            if (want_fp) fprintf(f, "F %llu %016llx\n", (unsigned long long)i, (unsigned long long)o.fingerprint);
            if (!o.findings.empty()) { std::string m = o.findings[0].msg; for (char &c : m) if (c == '\t' || c == '\n') c = ' '; fprintf(f, "V %llu\t%s\t%s\t%s\n", (unsigned long long)i, o.findings[0].kind.c_str(), sig_of(R, o.findings[0]).c_str(), m.c_str()); fflush(f); }
            if (W_runs <= 2) { std::string s; for (size_t t = 0; t < R.tasks.size(); ++t) { s += strf(" | task%zu:", t); for (auto &op : R.tasks[t].ops) s += " " + op_brief(R.tasks[t], op); } fprintf(f, "X run %llu scenario %d, %zu tasks, %llu switches:%s\n", (unsigned long long)i, R.scenario, R.tasks.size(), (unsigned long long)o.switches, s.substr(0, 900).c_str()); }
        },
        [&](FILE *f) {
            fprintf(f, "S runs %llu\nS accesses %llu\nS switches %llu\nS recorded %llu\nS cpu_traps %llu\nS heap_allocs %llu\n", (unsigned long long)W_runs, (unsigned long long)W_acc, (unsigned long long)W_sw, (unsigned long long)W_rec, (unsigned long long)g_cpu.n_traps, (unsigned long long)g_heap.n_alloc);
            // every task history is executed twice (alone, then interleaved); g_call_seq counts the library calls of both
            fprintf(f, "S ops %llu\nS lib_calls %llu\nS executions %llu\nS heap_frees %llu\nS heap_alloc_failures_injected %llu\n", (unsigned long long)W_ops, (unsigned long long)g_call_seq, (unsigned long long)(2 * W_runs), (unsigned long long)g_heap.n_free, (unsigned long long)g_heap.n_failed);
            for (uint64_t h : scheds) fprintf(f, "H %016llx\n", (unsigned long long)h);
            for (auto &kv : scen) fprintf(f, "P %s %llu\n", kv.first.c_str(), (unsigned long long)kv.second);
        });
    double wall = std::chrono::duration<double>(std::chrono::steady_clock::now() - t0).count();
    std::map<std::string, uint64_t> stats, probes; std::set<std::string> hashes; std::vector<std::string> samples;
    struct RawV { uint64_t run; std::string kind, sig, msg; }; std::vector<RawV> raws; std::vector<std::pair<uint64_t, std::string>> fps;
    for (auto &ln : pr.lines) {
        if (ln.size() < 2) continue;
        if (ln[0] == 'S') { char k[64]; unsigned long long v; if (sscanf(ln.c_str(), "S %63s %llu", k, &v) == 2) stats[k] += v; }
        else if (ln[0] == 'P') { char k[128]; unsigned long long v; if (sscanf(ln.c_str(), "P %127s %llu", k, &v) == 2) probes[k] += v; }
        else if (ln[0] == 'H') hashes.insert(ln.substr(2));
        else if (ln[0] == 'X') { if (samples.size() < 4) samples.push_back(ln.substr(2)); }
        else if (ln[0] == 'F') { unsigned long long r; char h[32]; if (sscanf(ln.c_str(), "F %llu %31s", &r, h) == 2) fps.push_back({r, h}); }
        else if (ln[0] == 'V') { std::vector<std::string> parts; size_t pos = 2; while (true) { size_t t = ln.find('\t', pos); if (t == std::string::npos) { parts.push_back(ln.substr(pos)); break; } parts.push_back(ln.substr(pos, t - pos)); pos = t + 1; } if (parts.size() >= 4) raws.push_back({strtoull(parts[0].c_str(), 0, 10), parts[1], parts[2], parts[3]}); }
    }
    for (auto &d : pr.deaths) { if (WIFEXITED(d.second) && WEXITSTATUS(d.second) == 2) { fprintf(stderr, "thrsim: harness fault in run %llu\n", (unsigned long long)d.first); return 2; } raws.push_back({d.first, "worker-death", "worker-death", strf("worker died with status 0x%x", d.second)}); }
    std::sort(raws.begin(), raws.end(), [](const RawV &a, const RawV &b) { return a.run < b.run; });
    std::map<std::string, uint64_t> sigc; for (auto &r : raws) ++sigc[r.sig];
    std::string vj; std::set<std::string> seen; int nondet = 0, nfinal = 0;
    for (auto &rv : raws) {
        if (seen.count(rv.sig) || nfinal >= 6) continue; seen.insert(rv.sig);
        ThrRun R = make_run(seed, rv.run);
        ThrOutcome a = simulate_isolated(R), b = simulate_isolated(R);
        if (rv.kind != "worker-death" && (a.fingerprint != b.fingerprint || a.findings.empty() || a.findings[0].kind != rv.kind)) { fprintf(stderr, "thrsim: run %llu does not repeat in a fresh process (harness nondeterminism, or hidden state in the library coupling the runs of a worker)\n", (unsigned long long)rv.run); ++nondet; seen.erase(rv.sig); continue; }
        int trials = 0; size_t before = 0; for (auto &t : R.tasks) before += t.ops.size();
        ThrRun M = rv.kind == "worker-death" ? R : minimise(R, rv.kind, trials);
        ThrOutcome fo = simulate_isolated(M);
        MonFinding fnd{rv.kind, rv.msg}; for (auto &f : fo.findings) if (f.kind == rv.kind) { fnd = f; break; }
        size_t after = 0; for (auto &t : M.tasks) after += t.ops.size();
        if (system(("mkdir -p " + g_replaydir).c_str())) {}
        std::string path = strf("%s/C18-%s-%llu-%llu.replay", g_replaydir.c_str(), FLAVOUR, (unsigned long long)seed, (unsigned long long)rv.run);
        write_replay(path, M, seed, rv.run, fnd, fo.segments);
        fflush(stdout);
        pid_t pid = fork(); if (pid == 0) { int fd = open("/dev/null", 1); if (fd >= 0) dup2(fd, 1); execl("/proc/self/exe", "thrsim", "--replay", path.c_str(), (char *)0); _exit(3); }
        int st = 0; waitpid(pid, &st, 0); bool rep = rv.kind == "worker-death" ? !(WIFEXITED(st) && WEXITSTATUS(st) == 0) : (WIFEXITED(st) && WEXITSTATUS(st) == 1);
        if (!rep) { fprintf(stderr, "thrsim: replay file %s did not reproduce in a fresh process\n", path.c_str()); ++nondet; }
        std::vector<std::string> trace;
        for (size_t t = 0; t < M.tasks.size(); ++t) { std::string s = strf("task %zu:", t); for (auto &op : M.tasks[t].ops) s += " " + op_brief(M.tasks[t], op); trace.push_back(s); }
        trace.push_back(strf("schedule: %zu segments", fo.segments.size()));
        std::string tj = "["; for (size_t i = 0; i < trace.size(); ++i) tj += (i ? "," : "") + jstr(trace[i]); tj += "]";
        vj += strf("%s    {\"inv\": %s, \"sig\": %s, \"run\": %llu, \"op\": -1, \"msg\": %s, \"replay\": %s, \"ops_before\": %zu, \"ops_after\": %zu, \"trials\": %d, \"reproduced_in_fresh_process\": %s, \"occurrences\": %llu, \"trace\": %s}",
                   nfinal ? ",\n" : "", jstr(rv.kind).c_str(), jstr(sig_of(M, fnd)).c_str(), (unsigned long long)rv.run, jstr(fnd.msg).c_str(), jstr(path).c_str(), before, after, trials, rep ? "true" : "false", (unsigned long long)sigc[rv.sig], tj.c_str());
        ++nfinal;
    }
    std::string j = "{\n";
    j += strf("  \"property\": \"C18\", \"flavour\": %s, \"tier\": %s, \"seed\": %llu, \"first_run\": %llu, \"runs_requested\": %llu, \"workers\": %d, \"wall_s\": %.3f,\n", jstr(FLAVOUR).c_str(), jstr(tier).c_str(), (unsigned long long)seed, (unsigned long long)first, (unsigned long long)runs, nw, wall);
    j += "  \"stats\": {"; { bool f1 = true; for (auto &kv : stats) { j += strf("%s\"%s\": %llu", f1 ? "" : ", ", kv.first.c_str(), (unsigned long long)kv.second); f1 = false; } } j += "},\n";
    j += "  \"probes\": {"; { bool f1 = true; for (auto &kv : probes) { j += strf("%s%s: %llu", f1 ? "" : ", ", jstr(kv.first).c_str(), (unsigned long long)kv.second); f1 = false; } } j += "},\n";
    j += "  \"transition_hashes\": ["; { bool f1 = true; for (auto &h : hashes) { j += (f1 ? "" : ",") + jstr(h); f1 = false; } } j += "],\n";
    j += "  \"samples\": ["; for (size_t i = 0; i < samples.size(); ++i) j += (i ? "," : "") + jstr(samples[i]); j += "],\n";
    if (want_fp) { std::sort(fps.begin(), fps.end()); uint64_t h = 0; for (auto &x : fps) h = hash_comb(h, hash_comb(x.first, hash_str(x.second.c_str()))); j += strf("  \"fingerprint_of_fingerprints\": \"%016llx\", \"fingerprints\": %zu,\n", (unsigned long long)h, fps.size()); }
    j += strf("  \"raw_violations\": %zu, \"harness_nondeterminism\": %d,\n  \"violations\": [\n%s\n  ]\n}\n", raws.size(), nondet, vj.c_str());
    if (!out.empty()) { std::ofstream f(out); f << j; } else fputs(j.c_str(), stdout);
    // A raw violation that does not repeat in isolation is normally a harness fault (exit 2).  If, however, other
    // violations of the same run batch were confirmed in fresh processes, the likely cause is hidden state in the
    // library that couples the runs of one worker process; the confirmed ones are reported (exit 1).
    if (nondet && nfinal == 0) return 2;
    return nfinal ? 1 : 0;
}
