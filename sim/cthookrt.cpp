// Call-backs for the cthook flavour (-fsanitize=kernel-address with out-of-line instrumentation).  Kept in a file of its
// own because the real ASan run-time, which the asan flavour links, defines the same symbols.
#include "tsanrt.hpp"
#define MEMHOOK(addr, size, wr) do { if (g_tsan.mem) g_tsan.mem((void *)(addr), (size), (wr), __builtin_return_address(0)); } while (0)
extern "C" {
// KASAN-style outline instrumentation (flavour cthook): unlike -fsanitize=thread it also reports reads of constant data,
// i.e. table look-ups, which is what C08 has to see.
void __asan_load1_noabort(void *a) { MEMHOOK(a, 1, 0); }
void __asan_load2_noabort(void *a) { MEMHOOK(a, 2, 0); }
void __asan_load4_noabort(void *a) { MEMHOOK(a, 4, 0); }
void __asan_load8_noabort(void *a) { MEMHOOK(a, 8, 0); }
void __asan_load16_noabort(void *a) { MEMHOOK(a, 16, 0); }
void __asan_store1_noabort(void *a) { MEMHOOK(a, 1, 1); }
void __asan_store2_noabort(void *a) { MEMHOOK(a, 2, 1); }
void __asan_store4_noabort(void *a) { MEMHOOK(a, 4, 1); }
void __asan_store8_noabort(void *a) { MEMHOOK(a, 8, 1); }
void __asan_store16_noabort(void *a) { MEMHOOK(a, 16, 1); }
void __asan_loadN_noabort(void *a, unsigned long n) { MEMHOOK(a, (unsigned)n, 0); }
void __asan_storeN_noabort(void *a, unsigned long n) { MEMHOOK(a, (unsigned)n, 1); }
void __asan_handle_no_return() {}
}
