// Simulator core: one integer decides everything.
#pragma once
#include <cstdint>
#include <cstdio>
#include <cstdlib>
#include <cstring>
#include <string>
#include <vector>
#include <map>
#include <set>
#include <algorithm>

typedef std::vector<uint8_t> Bytes;

// ---------------------------------------------------------------- hashing
static inline uint64_t mix64(uint64_t z) {
    z += 0x9E3779B97F4A7C15ULL;
    z = (z ^ (z >> 30)) * 0xBF58476D1CE4E5B9ULL;
    z = (z ^ (z >> 27)) * 0x94D049BB133111EBULL;
    return z ^ (z >> 31);
}
static inline uint64_t hash_bytes(const void *p, size_t n, uint64_t h = 0xcbf29ce484222325ULL) {
    const uint8_t *b = (const uint8_t *)p;
    for (size_t i = 0; i < n; ++i) { h ^= b[i]; h *= 0x100000001b3ULL; }
    return mix64(h ^ n);
}
static inline uint64_t hash_str(const char *s) { return hash_bytes(s, strlen(s)); }
static inline uint64_t hash_comb(uint64_t a, uint64_t b) { return mix64(a ^ (b + 0x9E3779B97F4A7C15ULL + (a << 6) + (a >> 2))); }

// ---------------------------------------------------------------- PRNG
// SplitMix64.  Independent sub-streams are derived by hashing
// (seed, run index, stream name) so that adding a draw in one stream can
// never shift another.
struct Rng {
    uint64_t s;
    explicit Rng(uint64_t seed = 0) : s(seed) {}
    Rng(uint64_t seed, uint64_t run, const char *stream) { s = hash_comb(hash_comb(mix64(seed), mix64(run ^ 0xA5A5)), hash_str(stream)); }
    uint64_t next() { s += 0x9E3779B97F4A7C15ULL; uint64_t z = s; z = (z ^ (z >> 30)) * 0xBF58476D1CE4E5B9ULL; z = (z ^ (z >> 27)) * 0x94D049BB133111EBULL; return z ^ (z >> 31); }
    uint32_t below(uint32_t n) { return n ? (uint32_t)(next() % n) : 0; }
    uint32_t range(uint32_t lo, uint32_t hi) { return lo + below(hi - lo + 1); }   // inclusive
    bool chance(uint32_t num, uint32_t den) { return below(den) < num; }
    uint8_t byte() { return (uint8_t)next(); }
    void fill(void *p, size_t n) { uint8_t *b = (uint8_t *)p; for (size_t i = 0; i < n; ++i) b[i] = byte(); }
    Bytes bytes(size_t n) { Bytes v(n); fill(v.data(), n); return v; }
    template <class T> const T &pick(const std::vector<T> &v) { return v[below((uint32_t)v.size())]; }
};

// ---------------------------------------------------------------- hex
static inline std::string hex(const void *p, size_t n) {
    static const char *d = "0123456789abcdef";
    std::string s; s.reserve(2 * n);
    const uint8_t *b = (const uint8_t *)p;
    for (size_t i = 0; i < n; ++i) { s.push_back(d[b[i] >> 4]); s.push_back(d[b[i] & 15]); }
    return s;
}
static inline std::string hex(const Bytes &v) { return hex(v.data(), v.size()); }
static inline Bytes unhex(const std::string &s) {
    Bytes v; v.reserve(s.size() / 2);
    auto nib = [](char c) -> int { return c >= '0' && c <= '9' ? c - '0' : c >= 'a' && c <= 'f' ? c - 'a' + 10 : c >= 'A' && c <= 'F' ? c - 'A' + 10 : 0; };
    for (size_t i = 0; i + 1 < s.size(); i += 2) v.push_back((uint8_t)(nib(s[i]) << 4 | nib(s[i + 1])));
    return v;
}

// ---------------------------------------------------------------- JSON out
static inline std::string jstr(const std::string &s) {
    std::string o = "\"";
    for (char c : s) {
        if (c == '"' || c == '\\') { o.push_back('\\'); o.push_back(c); }
        else if (c == '\n') o += "\\n";
        else if ((unsigned char)c < 0x20) { char b[8]; snprintf(b, sizeof b, "\\u%04x", c); o += b; }
        else o.push_back(c);
    }
    return o + "\"";
}

static inline std::string strf(const char *fmt, ...) __attribute__((format(printf, 1, 2)));
#include <cstdarg>
static inline std::string strf(const char *fmt, ...) {
    char buf[1024];
    va_list ap; va_start(ap, fmt); int n = vsnprintf(buf, sizeof buf, fmt, ap); va_end(ap);
    if (n < (int)sizeof buf) return std::string(buf, n < 0 ? 0 : n);
    std::string big((size_t)n + 1, '\0');
    va_start(ap, fmt); vsnprintf(&big[0], big.size(), fmt, ap); va_end(ap);
    big.resize((size_t)n);
    return big;
}

// ---------------------------------------------------------------- event log
// Every event is folded into the run's fingerprint.  Text is kept only when
// tracing is on (replay / reporting), never influences execution, and never
// draws from a PRNG or reads a clock.
struct EventLog {
    uint64_t fp = 0x1234;
    uint64_t nevents = 0;
    bool keep = false;
    std::vector<std::string> lines;
    void reset(bool keep_text) { fp = 0x1234; nevents = 0; keep = keep_text; lines.clear(); }
    void ev(const char *tag, uint64_t a = 0, uint64_t b = 0, uint64_t c = 0) {
        fp = hash_comb(hash_comb(hash_comb(hash_comb(fp, hash_str(tag)), a), b), c);
        ++nevents;
        if (keep) lines.push_back(strf("%s %llx %llx %llx", tag, (unsigned long long)a, (unsigned long long)b, (unsigned long long)c));
    }
    void evb(const char *tag, const void *p, size_t n) {
        uint64_t h = hash_bytes(p, n);
        fp = hash_comb(hash_comb(fp, hash_str(tag)), h);
        ++nevents;
        if (keep) lines.push_back(strf("%s [%zu] %s", tag, n, hex(p, n > 48 ? 48 : n).c_str()));
    }
};
