// Bindings to the library under test (real code, compiled from /repo's working tree).
#pragma once
#include "plan.hpp"
extern "C" {
#include "skinny128-cipher.h"
#include "skinny64-cipher.h"
#include "mantis-cipher.h"
#include "skinny128-parallel.h"
#include "skinny64-parallel.h"
#include "mantis-parallel.h"
// back-end identity (weak: a renamed symbol degrades the classification instead of breaking the link)
extern const char _skinny128_ctr_vec128 __attribute__((weak));
extern const char _skinny128_ctr_vec256 __attribute__((weak));
extern const char _skinny64_ctr_vec128 __attribute__((weak));
extern const char _mantis_ctr_vec128 __attribute__((weak));
void _skinny128_parallel_encrypt_vec128(void *, const void *, const Skinny128Key_t *) __attribute__((weak));
void _skinny128_parallel_encrypt_vec256(void *, const void *, const Skinny128Key_t *) __attribute__((weak));
void _skinny64_parallel_encrypt_vec128(void *, const void *, const Skinny64Key_t *) __attribute__((weak));
void _mantis_parallel_crypt_vec128(void *, const void *, const void *, const MantisKey_t *) __attribute__((weak));
}

static inline size_t handle_size(int k) {
    switch (k) {
    case K128: return sizeof(Skinny128Key_t);
    case TK128: return sizeof(Skinny128TweakedKey_t);
    case K64: return sizeof(Skinny64Key_t);
    case TK64: return sizeof(Skinny64TweakedKey_t);
    case MK: return sizeof(MantisKey_t);
    case CTR128: return sizeof(Skinny128CTR_t);
    case CTR64: return sizeof(Skinny64CTR_t);
    case MCTR: return sizeof(MantisCTR_t);
    case P128: return sizeof(Skinny128ParallelECB_t);
    case P64: return sizeof(Skinny64ParallelECB_t);
    case PM: return sizeof(MantisParallelECB_t);
    }
    return 0;
}

// generic view of the CTR / parallel handles (first two members are the same in all six)
struct ObjHandleView { const void *vtable; void *ctx; };

static inline int lib_init(int k, void *h) {
    switch (k) {
    case CTR128: return skinny128_ctr_init((Skinny128CTR_t *)h);
    case CTR64: return skinny64_ctr_init((Skinny64CTR_t *)h);
    case MCTR: return mantis_ctr_init((MantisCTR_t *)h);
    case P128: return skinny128_parallel_ecb_init((Skinny128ParallelECB_t *)h);
    case P64: return skinny64_parallel_ecb_init((Skinny64ParallelECB_t *)h);
    case PM: return mantis_parallel_ecb_init((MantisParallelECB_t *)h);
    }
    return -99;
}
static inline void *lib_init_fn(int k) {
    switch (k) {
    case CTR128: return (void *)skinny128_ctr_init;
    case CTR64: return (void *)skinny64_ctr_init;
    case MCTR: return (void *)mantis_ctr_init;
    case P128: return (void *)skinny128_parallel_ecb_init;
    case P64: return (void *)skinny64_parallel_ecb_init;
    case PM: return (void *)mantis_parallel_ecb_init;
    }
    return nullptr;
}
static inline void lib_cleanup(int k, void *h) {
    switch (k) {
    case CTR128: skinny128_ctr_cleanup((Skinny128CTR_t *)h); break;
    case CTR64: skinny64_ctr_cleanup((Skinny64CTR_t *)h); break;
    case MCTR: mantis_ctr_cleanup((MantisCTR_t *)h); break;
    case P128: skinny128_parallel_ecb_cleanup((Skinny128ParallelECB_t *)h); break;
    case P64: skinny64_parallel_ecb_cleanup((Skinny64ParallelECB_t *)h); break;
    case PM: mantis_parallel_ecb_cleanup((MantisParallelECB_t *)h); break;
    }
}
static inline int lib_setkey(int k, void *h, const void *key, unsigned size, unsigned rounds, int mode) {
    switch (k) {
    case K128: return skinny128_set_key((Skinny128Key_t *)h, key, size);
    case TK128: return skinny128_set_key(h ? &((Skinny128TweakedKey_t *)h)->ks : nullptr, key, size);
    case K64: return skinny64_set_key((Skinny64Key_t *)h, key, size);
    case TK64: return skinny64_set_key(h ? &((Skinny64TweakedKey_t *)h)->ks : nullptr, key, size);
    case MK: return mantis_set_key((MantisKey_t *)h, key, size, rounds, mode);
    case CTR128: return skinny128_ctr_set_key((Skinny128CTR_t *)h, key, size);
    case CTR64: return skinny64_ctr_set_key((Skinny64CTR_t *)h, key, size);
    case MCTR: return mantis_ctr_set_key((MantisCTR_t *)h, key, size, rounds);
    case P128: return skinny128_parallel_ecb_set_key((Skinny128ParallelECB_t *)h, key, size);
    case P64: return skinny64_parallel_ecb_set_key((Skinny64ParallelECB_t *)h, key, size);
    case PM: return mantis_parallel_ecb_set_key((MantisParallelECB_t *)h, key, size, rounds, mode);
    }
    return -99;
}
static inline int lib_settkey(int k, void *h, const void *key, unsigned size) {
    switch (k) {
    case TK128: return skinny128_set_tweaked_key((Skinny128TweakedKey_t *)h, key, size);
    case TK64: return skinny64_set_tweaked_key((Skinny64TweakedKey_t *)h, key, size);
    case CTR128: return skinny128_ctr_set_tweaked_key((Skinny128CTR_t *)h, key, size);
    case CTR64: return skinny64_ctr_set_tweaked_key((Skinny64CTR_t *)h, key, size);
    }
    return -99;
}
static inline int lib_settweak(int k, void *h, const void *tw, unsigned size) {
    switch (k) {
    case TK128: return skinny128_set_tweak((Skinny128TweakedKey_t *)h, tw, size);
    case TK64: return skinny64_set_tweak((Skinny64TweakedKey_t *)h, tw, size);
    case MK: return mantis_set_tweak((MantisKey_t *)h, tw, size);
    case CTR128: return skinny128_ctr_set_tweak((Skinny128CTR_t *)h, tw, size);
    case CTR64: return skinny64_ctr_set_tweak((Skinny64CTR_t *)h, tw, size);
    case MCTR: return mantis_ctr_set_tweak((MantisCTR_t *)h, tw, size);
    }
    return -99;
}
static inline int lib_setctr(int k, void *h, const void *c, unsigned size) {
    switch (k) {
    case CTR128: return skinny128_ctr_set_counter((Skinny128CTR_t *)h, c, size);
    case CTR64: return skinny64_ctr_set_counter((Skinny64CTR_t *)h, c, size);
    case MCTR: return mantis_ctr_set_counter((MantisCTR_t *)h, c, size);
    }
    return -99;
}
static inline int lib_enc(int k, void *out, const void *in, size_t n, void *h) {
    switch (k) {
    case CTR128: return skinny128_ctr_encrypt(out, in, n, (Skinny128CTR_t *)h);
    case CTR64: return skinny64_ctr_encrypt(out, in, n, (Skinny64CTR_t *)h);
    case MCTR: return mantis_ctr_encrypt(out, in, n, (MantisCTR_t *)h);
    }
    return -99;
}
static inline int lib_par(int k, bool dec, void *out, const void *in, const void *tw, size_t n, const void *h) {
    switch (k) {
    case P128: return dec ? skinny128_parallel_ecb_decrypt(out, in, n, (const Skinny128ParallelECB_t *)h) : skinny128_parallel_ecb_encrypt(out, in, n, (const Skinny128ParallelECB_t *)h);
    case P64: return dec ? skinny64_parallel_ecb_decrypt(out, in, n, (const Skinny64ParallelECB_t *)h) : skinny64_parallel_ecb_encrypt(out, in, n, (const Skinny64ParallelECB_t *)h);
    case PM: return mantis_parallel_ecb_crypt(out, in, tw, n, (const MantisParallelECB_t *)h);
    }
    return -99;
}
// single block through a key schedule handle
static inline void lib_block(int k, int code, void *out, const void *in, const void *tw, const void *h) {
    switch (k) {
    case K128: if (code == OP_BDEC) skinny128_ecb_decrypt(out, in, (const Skinny128Key_t *)h); else skinny128_ecb_encrypt(out, in, (const Skinny128Key_t *)h); break;
    case TK128: if (code == OP_BDEC) skinny128_ecb_decrypt(out, in, &((const Skinny128TweakedKey_t *)h)->ks); else skinny128_ecb_encrypt(out, in, &((const Skinny128TweakedKey_t *)h)->ks); break;
    case K64: if (code == OP_BDEC) skinny64_ecb_decrypt(out, in, (const Skinny64Key_t *)h); else skinny64_ecb_encrypt(out, in, (const Skinny64Key_t *)h); break;
    case TK64: if (code == OP_BDEC) skinny64_ecb_decrypt(out, in, &((const Skinny64TweakedKey_t *)h)->ks); else skinny64_ecb_encrypt(out, in, &((const Skinny64TweakedKey_t *)h)->ks); break;
    case MK: if (code == OP_BTWK) mantis_ecb_crypt_tweaked(out, in, tw, (const MantisKey_t *)h); else mantis_ecb_crypt(out, in, (const MantisKey_t *)h); break;
    }
}
static inline void lib_swap(int k, void *h) {
    if (k == MK) mantis_swap_modes((MantisKey_t *)h);
    else if (k == PM) mantis_parallel_ecb_swap_modes((MantisParallelECB_t *)h);
}

// is the 128-bit (level 1) / 256-bit (level 2) SIMD code compiled into this build of the library?  (A stubbed-out
// back end leaves its CTR vtable all-zero.)
static inline bool lib_compiled_in(int level) {
    const char *vt = level == 2 ? &_skinny128_ctr_vec256 : &_skinny128_ctr_vec128;
    if (!vt) return true;                      // symbol renamed: cannot tell, assume it is there
    return *(void *const *)vt != nullptr;
}

// which back end serves an initialised object: 0 generic, 1 vec128, 2 vec256, -1 unknown
static inline int lib_backend(int k, const void *h) {
    const ObjHandleView *v = (const ObjHandleView *)h;
    if (is_ctr(k)) {
        if (!v->vtable) return -1;
        if (k == CTR128) { if (v->vtable == (const void *)&_skinny128_ctr_vec256) return 2; if (v->vtable == (const void *)&_skinny128_ctr_vec128) return 1; return 0; }
        if (k == CTR64) return v->vtable == (const void *)&_skinny64_ctr_vec128 ? 1 : 0;
        return v->vtable == (const void *)&_mantis_ctr_vec128 ? 1 : 0;
    }
    if (is_par(k)) {
        if (!v->vtable) return 0;
        // the private vtable's layout is not ours to know: look for a known entry point in its first few words
        for (int i = 0; i < 3; ++i) {
            void *f = ((void *const *)v->vtable)[i];
            if (k == P128) { if (f == (void *)_skinny128_parallel_encrypt_vec256) return 2; if (f == (void *)_skinny128_parallel_encrypt_vec128) return 1; }
            if (k == P64 && f == (void *)_skinny64_parallel_encrypt_vec128) return 1;
            if (k == PM && f == (void *)_mantis_parallel_crypt_vec128) return 1;
        }
        return -1;
    }
    return -1;
}
static inline size_t lib_parallel_size(int k, const void *h) {
    switch (k) {
    case P128: return ((const Skinny128ParallelECB_t *)h)->parallel_size;
    case P64: return ((const Skinny64ParallelECB_t *)h)->parallel_size;
    case PM: return ((const MantisParallelECB_t *)h)->parallel_size;
    }
    return 0;
}
// SIMD batch size in bytes of a CTR back end (private detail, used only to aim the generator and for probes)
static inline unsigned ctr_batch_bytes(int k, int backend) {
    if (backend <= 0) return kind_bs(k);
    if (k == CTR128) return backend == 2 ? 128 : 64;
    if (k == CTR64) return 64;
    return 64;   // Mantis: 8 blocks
}

// canonical, padding-free image of a key-schedule handle (used part only)
static inline Bytes canon_schedule(int k, const void *h) {
    Bytes v;
    auto put = [&](const void *p, size_t n) { v.insert(v.end(), (const uint8_t *)p, (const uint8_t *)p + n); };
    if (k == K128 || k == TK128) {
        const Skinny128Key_t *ks = k == K128 ? (const Skinny128Key_t *)h : &((const Skinny128TweakedKey_t *)h)->ks;
        unsigned r = ks->rounds; put(&r, 4); if (r > SKINNY128_MAX_ROUNDS) r = SKINNY128_MAX_ROUNDS;
        for (unsigned i = 0; i < r; ++i) put(&ks->schedule[i], 8);
        if (k == TK128) put(((const Skinny128TweakedKey_t *)h)->tweak, 16);
    } else if (k == K64 || k == TK64) {
        const Skinny64Key_t *ks = k == K64 ? (const Skinny64Key_t *)h : &((const Skinny64TweakedKey_t *)h)->ks;
        unsigned r = ks->rounds; put(&r, 4); if (r > SKINNY64_MAX_ROUNDS) r = SKINNY64_MAX_ROUNDS;
        for (unsigned i = 0; i < r; ++i) put(&ks->schedule[i], 4);
        if (k == TK64) put(((const Skinny64TweakedKey_t *)h)->tweak, 8);
    } else if (k == MK) {
        const MantisKey_t *ks = (const MantisKey_t *)h;
        put(&ks->k0, 8); put(&ks->k0prime, 8); put(&ks->k1, 8); put(&ks->tweak, 8); put(&ks->rounds, 4);
    }
    return v;
}
