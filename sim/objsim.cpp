// objsim: object-history simulator (DESIGN.md 3.2).  One binary per build flavour.
#include "gen.hpp"
#include "tsanrt.hpp"
#include <sys/wait.h>
#include <sys/mman.h>
#include <unistd.h>
#include <fstream>
#include <fcntl.h>
#include <chrono>

static std::string g_flavour = "plain";
#define FLAVOUR (g_flavour.c_str())

enum Mode { M_SINGLE, M_XHOST, M_DUAL, M_C14, M_GRID, M_CT };
struct PropDef { const char *id; Mode mode; uint32_t checks; uint64_t quick_runs, thorough_runs; };
static const PropDef PROPS[] = {
    {"C03", M_SINGLE, CK_RTRIP | CK_MSCHED | CK_OUT, 60000, 3000000},
    {"C04", M_SINGLE, CK_FRESH | CK_OUT | CK_UNCHANGED | CK_RET, 40000, 2000000},
    {"C05", M_SINGLE, CK_OUT, 40000, 2000000},
    {"C06", M_XHOST, 0, 20000, 1000000},
    {"C07", M_SINGLE, CK_OUT, 40000, 1000000},
    {"C09", M_SINGLE, CK_MEM | CK_OUT, 30000, 1500000},
    {"C10", M_SINGLE, CK_PAD | CK_RET | CK_UNCHANGED | CK_OUT | CK_MEM, 30000, 1500000},
    {"C11", M_DUAL, 0, 20000, 1000000},
    {"C13", M_GRID, CK_SELECT, 0, 0},
    {"C14", M_C14, CK_RET | CK_UNCHANGED | CK_MEM, 30000, 1500000},
    {"C15", M_SINGLE, CK_HEAP | CK_RET, 40000, 2000000},
    {"C16", M_SINGLE, CK_FAILINIT | CK_RET | CK_HEAP, 20000, 500000},
    {"C17", M_SINGLE, CK_WIPE, 40000, 2000000},
    {"C08", M_CT, 0, 6000, 300000},
    {"DIG", M_SINGLE, 0, 4000, 20000},      // digest workload for cfgsim (C12): API-visible results only
};
static const PropDef *find_prop(const std::string &id) { for (auto &p : PROPS) if (id == p.id) return &p; return nullptr; }

// ------------------------------------------------------------------------- C13 grid
static std::vector<CpuModel> g_grid;
static std::vector<std::string> g_grid_names;
static void build_grid() {
    static const uint32_t maxleafs[] = {1, 2, 4, 6, 7, 13, 27};
    static const uint64_t xcr0s[] = {1, 3, 7, 0xE7};
    static const uint32_t l1x[] = {0x7ffafbffu & ~((1u << 26) | (1u << 27) | (1u << 28)), 0u};
    // hardware feature sets are kept consistent (AVX => SSE2; AVX2 without AVX only as a masked leaf 1); everything else is a free dimension
    static const int feat[5][3] = {{0, 0, 0}, {1, 0, 0}, {1, 1, 0}, {1, 1, 1}, {1, 0, 1}};   // the last row: a hypervisor masks AVX in leaf 1 but leaves the AVX2 bit in leaf 7
    for (uint32_t ml : maxleafs) for (auto &ft : feat) for (int osx = 0; osx < 2; ++osx)
        for (uint64_t x : xcr0s) for (int other = 0; other < 2; ++other) for (int intel = 0; intel < 2; ++intel) for (uint32_t e : l1x) {
            CpuModel m; m.maxleaf = ml; m.sse2 = ft[0]; m.avx = ft[1]; m.avx2 = ft[2]; m.osxsave = osx;
            m.l7_other_ebx = other ? (1u << 5) | 0x219c07abu : 0; m.intel_oor = intel; m.xcr0 = osx ? x : 0; m.l1_ecx_extra = e;
            g_grid_names.push_back(strf("grid{maxleaf=%u,sse2=%d,avx=%d,avx2=%d,osxsave=%d,xcr0=0x%llx,l7sub=%s,oor=%s,l1ecx=%s}", ml, (int)m.sse2, (int)m.avx, (int)m.avx2, osx, (unsigned long long)m.xcr0, other ? "junk" : "zero", intel ? "intel" : "amd", e ? "typical" : "zero"));
            g_grid.push_back(m);
        }
    for (size_t i = 0; i < g_grid.size(); ++i) g_grid[i].name = g_grid_names[i].c_str();
}
static const int INIT_KINDS[] = {CTR128, CTR64, MCTR, P128, P64, PM};
static Plan gen_grid(Rng rng, uint64_t run) {
    Gen G(rng);
    // the cells are visited in a scrambled order (7919 is coprime to the number of cells), so that the third of the grid
    // the quick tier enumerates is spread over every dimension instead of being one contiguous range of max-leaf values
    uint64_t full = 6ULL * g_grid.size(), cell = (run % full) * 7919ULL % full;
    int kind = INIT_KINDS[cell % 6]; int model = (int)(cell / 6);
    int s = G.add_slot(kind);
    // three inits per cell in different junk register/stack contexts; the third one under memory pressure (its first
    // allocation fails): if an implementation then still reports success, the back end must nevertheless be the widest one
    for (int rep = 0; rep < 3; ++rep) { G.init(s, 3 + model, rep == 2 ? 1 : 0, G.r.below(3)); G.p.ops.back().flags |= F_JUNKREGS; G.cleanup(s); }
    return G.p;
}

// ------------------------------------------------------------------------- plan generation per property
static Plan make_plan_raw(const PropDef &pd, uint64_t seed, uint64_t run);
static Plan make_plan(const PropDef &pd, uint64_t seed, uint64_t run) {
    Plan p = make_plan_raw(pd, seed, run);
    // Where results are compared ACROSS back ends or build configurations (C06's hosts, C12's digests) the allocation
    // fault must mean the same thing everywhere: "the k-th request fails" for k >= 2 depends on how many requests a back
    // end happens to make (a private detail), so only "the first request fails" / "memory is exhausted" are used there.
    if (pd.mode == M_XHOST || std::string(pd.id) == "DIG") for (auto &o : p.ops) if (o.failalloc >= 2) o.failalloc = 1; else if (o.failalloc < -1) o.failalloc = -1;
    return p;
}
static Plan make_plan_raw(const PropDef &pd, uint64_t seed, uint64_t run) {
    Rng rng(seed, run, "plan");
    std::string id = pd.id;
    if (id == "C03") return gen_inverse(rng);
    if (id == "C04") return gen_tweak(rng);
    if (id == "C05") return run % 4 == 3 ? gen_packets(rng) : gen_stream(rng);
    if (id == "C06") return gen_xhost(rng, true);
    if (id == "C07") return gen_parallel(rng, run);
    if (id == "C08") return gen_mixture(rng, run);
    if (id == "C09") return gen_buffers(rng);
    if (id == "C10") return gen_keylen(rng, run);
    if (id == "C11") return gen_mixture(rng, run);
    if (id == "C13") return gen_grid(rng, run);
    if (id == "C14") return gen_errors(rng);
    if (id == "C15") return gen_lifecycle(rng, 60, false);
    if (id == "C16") return gen_failinit(rng, run);
    if (id == "C17") return gen_lifecycle(rng, 50, true);
    if (id == "DIG") return gen_mixture(rng, run);
    return Plan();
}

// ------------------------------------------------------------------------- evaluation (one simulated run)
struct Outcome {
    std::vector<Violation> viol;
    uint64_t fingerprint = 0;
    uint64_t digest = 0;            // API-visible results only (cross-flavour / cross-configuration comparison)
    uint64_t lib_calls = 0, ops = 0, skipped = 0, executions = 0;
    std::vector<std::string> trace;
};

static uint64_t obs_digest(const Plan &p, const RunResult &r, bool with_snap) {
    uint64_t d = 0x77;
    for (size_t i = 0; i < r.obs.size(); ++i) {
        const OpObs &o = r.obs[i];
        d = hash_comb(d, (uint64_t)(uint32_t)o.ret ^ ((uint64_t)o.skipped << 40) ^ ((uint64_t)o.crashed << 41));
        if (!o.out.empty()) d = hash_comb(d, hash_bytes(o.out.data(), o.out.size()));
        if (with_snap && !o.snap.empty()) d = hash_comb(d, hash_bytes(o.snap.data(), o.snap.size()));
    }
    (void)p;
    return d;
}

static int first_obs_diff(const Plan &p, const RunResult &a, const RunResult &b, bool snap, bool injected_too, std::string *what) {
    size_t n = std::min(a.obs.size(), b.obs.size());
    for (size_t i = 0; i < n; ++i) {
        if (!injected_too && (p.ops[i].flags & F_INJECTED)) continue;
        const OpObs &x = a.obs[i], &y = b.obs[i];
        if (x.skipped != y.skipped) { *what = "one execution skipped the operation"; return (int)i; }
        if (x.crashed != y.crashed) { *what = "crash in one execution only"; return (int)i; }
        if ((x.ret != 0) != (y.ret != 0)) { *what = strf("return value %d vs %d", x.ret, y.ret); return (int)i; }
        if (x.out != y.out) { size_t q = 0; while (q < x.out.size() && q < y.out.size() && x.out[q] == y.out[q]) ++q; *what = strf("output differs from byte %zu: %s vs %s", q, hex(x.out.data() + q, std::min<size_t>(8, x.out.size() - q)).c_str(), hex(y.out.data() + q, std::min<size_t>(8, y.out.size() - q)).c_str()); return (int)i; }
        if (snap && x.snap != y.snap) { *what = "key schedule contents differ"; return (int)i; }
    }
    return -1;
}

// ---- ctsim (C08): paired-replay trace equality
struct CtEvent { int op; uint8_t kind; uint64_t val; };
static uint64_t g_ct_hash; static uint64_t g_ct_events; static bool g_ct_record; static std::vector<CtEvent> g_ct_vec;
extern char __executable_start;
static void ct_mem(void *addr, unsigned size, int wr, void *) {
    if (!g_trace_gate) return;
    uint64_t v = (uint64_t)(uintptr_t)addr * 4 + (wr ? 2 : 0); v = v * 64 + (size & 63);
    g_ct_hash = mix64(g_ct_hash ^ v); ++g_ct_events;
    if (g_ct_record) g_ct_vec.push_back({g_trace_op, (uint8_t)(wr ? 2 : 1), (uint64_t)(uintptr_t)addr << 8 | (size & 255)});
}
static void ct_pc(void *pc) {
    if (!g_trace_gate) return;
    g_ct_hash = mix64(g_ct_hash ^ ((uint64_t)(uintptr_t)pc * 0x9E3779B97F4A7C15ULL)); ++g_ct_events;
    if (g_ct_record) g_ct_vec.push_back({g_trace_op, 3, (uint64_t)(uintptr_t)pc});
}
static Plan with_secrets(const Plan &p, int variant, uint64_t seed, uint64_t run) {
    if (variant == 0) return p;
    Plan q = p; Rng r(seed, run, variant == 3 ? "secret3" : "secret4");
    if (variant == 5 || variant == 6) { uint8_t b = variant == 5 ? 0x01 : 0x80; for (auto &o : q.ops) { std::fill(o.a.begin(), o.a.end(), b); std::fill(o.b.begin(), o.b.end(), b); } return q; }
    for (auto &o : q.ops) {
        if (variant == 1) { std::fill(o.a.begin(), o.a.end(), 0); std::fill(o.b.begin(), o.b.end(), 0); }
        else if (variant == 2) { std::fill(o.a.begin(), o.a.end(), 0xFF); std::fill(o.b.begin(), o.b.end(), 0xFF); }
        else { r.fill(o.a.data(), o.a.size()); r.fill(o.b.data(), o.b.size()); }
    }
    return q;
}
static std::string ct_event_str(const CtEvent &e) {
    if (e.kind == 3) return strf("basic block at pc+0x%lx", (unsigned long)(e.val - (uintptr_t)&__executable_start));
    return strf("%s of %u byte(s) at %s", e.kind == 2 ? "write" : "read", (unsigned)(e.val & 255), classify_addr((void *)(uintptr_t)(e.val >> 8)).c_str());
}

static Outcome evaluate(const PropDef &pd, const Plan &plan, uint64_t seed, uint64_t run, bool trace) {
    Outcome O;
    ExecCfg c; c.checks = pd.checks; c.trace = trace; c.grid = &g_grid;
    c.world = mix64(seed * 31 + run) | 1;
    auto absorb = [&](const RunResult &r, const char *label) {
        ++O.executions; O.lib_calls += r.lib_calls; O.fingerprint = hash_comb(O.fingerprint, r.fingerprint);
        for (auto &v : r.viol) O.viol.push_back(v);
        if (trace) { O.trace.push_back(std::string("--- execution: ") + label); for (auto &l : r.trace) O.trace.push_back(l); for (auto &v : r.viol) O.trace.push_back("    !! " + v.inv + ": " + v.msg); }
        for (auto &o : r.obs) { ++O.ops; O.skipped += o.skipped; }
    };
    switch (pd.mode) {
    case M_SINGLE: case M_GRID: {
        RunResult r = execute(plan, c); absorb(r, "single");
        O.digest = obs_digest(plan, r, false);
        break;
    }
    case M_XHOST: {
        bool wide = false; for (int k : plan.slots) wide |= (k == CTR128 || k == P128);
        RunResult r[3]; int nh = wide ? 3 : 2;
        static const char *hn[] = {"host-generic", "host-sse2", "host-avx2"};
        c.allow_odd = true;
        for (int h = 0; h < nh; ++h) { c.cpu_override = h; r[h] = execute(plan, c); absorb(r[h], hn[h]); if (!r[h].viol.empty()) return O; }
        for (int h = 1; h < nh; ++h) {
            std::string what; int at = first_obs_diff(plan, r[0], r[h], false, true, &what);
            if (at >= 0) {
                Violation v; v.op = at; v.inv = r[0].obs[at].out != r[h].obs[at].out ? "xhost-out" : "xhost-ret";
                v.msg = strf("%s: the generic and the %s back end disagree: %s", op_brief(plan, plan.ops[at]).c_str(), h == 2 ? "256-bit" : "128-bit", what.c_str());
                O.viol.push_back(v); if (trace) O.trace.push_back("    !! " + v.inv + ": " + v.msg);
                break;
            }
        }
        O.digest = obs_digest(plan, r[0], false);
        break;
    }
    case M_DUAL: {
        c.allow_odd = true;      // the oracle is differential (world A against world B): calls without a model are decided too
        RunResult a = execute(plan, c); absorb(a, "world A");
        if (!a.viol.empty()) return O;
        ExecCfg c2 = c; c2.world = mix64(c.world ^ 0xB0B0B0B0ULL) | 1;
        RunResult b = execute(plan, c2); absorb(b, "world B");
        if (!b.viol.empty()) return O;
        std::string what; int at = first_obs_diff(plan, a, b, true, true, &what);
        if (at >= 0) {
            Violation v; v.op = at; v.inv = "world-dependence";
            v.msg = strf("%s: same calls, different stack/heap/caller-memory garbage: %s", op_brief(plan, plan.ops[at]).c_str(), what.c_str());
            O.viol.push_back(v); if (trace) O.trace.push_back("    !! " + v.inv + ": " + v.msg);
        }
        for (size_t i = 0; i < a.obs.size() && O.viol.empty(); ++i) if (a.obs[i].backend != b.obs[i].backend) { Violation v; v.op = (int)i; v.inv = "world-dependence"; v.msg = "back-end choice differs between worlds"; O.viol.push_back(v); }
        O.digest = obs_digest(plan, a, true);
        break;
    }
    case M_CT: {
        g_tsan.mem = ct_mem; g_tsan.pc = ct_pc;
        c.cpu_override = (int)(mix64(seed ^ run * 77) % 3);
        uint64_t h0 = 0, ev0 = 0; static const char *vn[] = {"secrets as generated", "all secret bytes 00", "all secret bytes FF", "other random secrets", "third random secrets", "all secret bytes 01", "all secret bytes 80"};
        for (int v = 0; v < 7; ++v) {
            Plan q = with_secrets(plan, v, seed, run);
            g_ct_hash = 0x51; g_ct_events = 0; g_ct_record = false;
            RunResult r = execute(q, c); absorb(r, vn[v]);
            if (!r.viol.empty()) { O.viol.clear(); break; }      // crashes etc. are other properties' business
            if (v == 0) { h0 = g_ct_hash; ev0 = g_ct_events; O.digest = h0; continue; }
            if (g_ct_hash != h0 || g_ct_events != ev0) {
                // record both executions in full and find the first event that differs
                g_ct_record = true; g_ct_vec.clear(); execute(plan, c); std::vector<CtEvent> A = g_ct_vec;
                g_ct_vec.clear(); execute(q, c); std::vector<CtEvent> Bv = g_ct_vec; g_ct_record = false;
                size_t i = 0; while (i < A.size() && i < Bv.size() && A[i].kind == Bv[i].kind && A[i].val == Bv[i].val) ++i;
                Violation vv; vv.inv = "trace-divergence"; vv.op = i < A.size() ? A[i].op : (i < Bv.size() ? Bv[i].op : -1);
                if (vv.op < 0 || vv.op >= (int)plan.ops.size()) vv.op = 0;
                vv.msg = strf("%s: with %s the recorded branch/address trace departs from the trace with %s at event %zu of %zu/%zu: %s  vs  %s",
                              op_brief(plan, plan.ops[vv.op]).c_str(), vn[v], vn[0], i, A.size(), Bv.size(), i < A.size() ? ct_event_str(A[i]).c_str() : "(end of trace)", i < Bv.size() ? ct_event_str(Bv[i]).c_str() : "(end of trace)");
                O.viol.push_back(vv); if (trace) O.trace.push_back("    !! " + vv.inv + ": " + vv.msg);
                break;
            }
        }
        O.lib_calls = O.lib_calls; g_tsan.mem = nullptr; g_tsan.pc = nullptr;
        { static int pid2 = g_probes.reg("ct.events"); g_probes.counts[pid2] += ev0; }
        break;
    }
    case M_C14: {
        RunResult a = execute(plan, c); absorb(a, "with injected invalid calls");
        if (!a.viol.empty()) return O;
        ExecCfg c2 = c; c2.strip_injected = true; c2.checks = 0;
        RunResult b = execute(plan, c2); absorb(b, "same history without them");
        if (!b.viol.empty()) { O.viol.clear(); return O; }   // not this property's business
        std::string what; int at = first_obs_diff(plan, a, b, true, false, &what);
        if (at >= 0) {
            Violation v; v.op = at; v.inv = "as-if-not-made";
            v.msg = strf("%s: result differs from the same history without the rejected calls: %s", op_brief(plan, plan.ops[at]).c_str(), what.c_str());
            O.viol.push_back(v); if (trace) O.trace.push_back("    !! " + v.inv + ": " + v.msg);
        }
        O.digest = obs_digest(plan, a, false);
        break;
    }
    }
    return O;
}

// Evaluations made by the parent process (determinism gate, final trace; minimisation trials are
// forked anyway) run in a fresh fork of the parent, which itself never executes library code:
// hidden state in the library (e.g. a cached CPU probe) cannot make one evaluation depend on an
// earlier one, and cannot turn a library defect into "harness nondeterminism".
static Outcome evaluate_isolated(const PropDef &pd, const Plan &plan, uint64_t seed, uint64_t run, bool trace) {
    int fd[2]; if (pipe(fd) != 0) return Outcome();
    fflush(stdout); fflush(stderr);
    pid_t pid = fork();
    if (pid == 0) {
        close(fd[0]);
        for (auto &c : g_probes.counts) c = 0;
        g_cover = Coverage(); g_heap.n_alloc = g_heap.n_free = g_heap.n_failed = 0; g_cpu.n_traps = 0;
        Outcome o = evaluate(pd, plan, seed, run, trace); FILE *f = fdopen(fd[1], "w");
        fprintf(f, "F %llx %llx %llu %llu %llu %llu\n", (unsigned long long)o.fingerprint, (unsigned long long)o.digest, (unsigned long long)o.lib_calls, (unsigned long long)o.ops, (unsigned long long)o.skipped, (unsigned long long)o.executions);
        for (auto &v : o.viol) { std::string m = v.msg; for (char &c : m) if (c == '\n' || c == '\t') c = ' '; fprintf(f, "V %s\t%d\t%s\n", v.inv.c_str(), v.op, m.c_str()); }
        for (auto &l : o.trace) { std::string m = l; for (char &c : m) if (c == '\n') c = ' '; fprintf(f, "T %s\n", m.c_str()); }
        for (uint64_t h : g_cover.nontrivial) fprintf(f, "H %llx\n", (unsigned long long)h);
        for (size_t i = 0; i < g_probes.names.size(); ++i) fprintf(f, "P %s %llu\n", g_probes.names[i].c_str(), (unsigned long long)g_probes.counts[i]);
        fprintf(f, "S %llu %llu %llu %llu %llu\n", (unsigned long long)g_heap.n_alloc, (unsigned long long)g_heap.n_free, (unsigned long long)g_heap.n_failed, (unsigned long long)g_cpu.n_traps, 0ULL);
        fclose(f); _exit(0);
    }
    close(fd[1]); Outcome o; FILE *f = fdopen(fd[0], "r"); char *line = nullptr; size_t cap = 0;
    while (getline(&line, &cap, f) > 0) {
        std::string ln(line); if (!ln.empty() && ln.back() == '\n') ln.pop_back();
        if (ln.size() < 2) continue;
        if (ln[0] == 'F') { unsigned long long a, b, c, d, e, g; if (sscanf(ln.c_str(), "F %llx %llx %llu %llu %llu %llu", &a, &b, &c, &d, &e, &g) == 6) { o.fingerprint = a; o.digest = b; o.lib_calls = c; o.ops = d; o.skipped = e; o.executions = g; } }
        else if (ln[0] == 'V') { size_t t1 = ln.find('\t'), t2 = ln.find('\t', t1 + 1); Violation v; v.inv = ln.substr(2, t1 - 2); v.op = atoi(ln.substr(t1 + 1, t2 - t1 - 1).c_str()); v.msg = ln.substr(t2 + 1); o.viol.push_back(v); }
        else if (ln[0] == 'T') o.trace.push_back(ln.substr(2));
        else if (ln[0] == 'H') g_cover.add(strtoull(ln.c_str() + 2, 0, 16), true);
        else if (ln[0] == 'P') { char k[128]; unsigned long long v; if (sscanf(ln.c_str(), "P %127s %llu", k, &v) == 2) g_probes.hit(k, v); }
        else if (ln[0] == 'S') { unsigned long long a, b, c, d, e; if (sscanf(ln.c_str(), "S %llu %llu %llu %llu %llu", &a, &b, &c, &d, &e) == 5) { g_heap.n_alloc += a; g_heap.n_free += b; g_heap.n_failed += c; g_cpu.n_traps += d; } }
    }
    free(line); fclose(f); int st = 0; waitpid(pid, &st, 0);
    if (WIFEXITED(st) && WEXITSTATUS(st) == 77) { Violation v; v.inv = "sanitizer-report"; v.msg = "the sanitizer build aborted with a report"; o.viol.push_back(v); }
    else if (!(WIFEXITED(st) && WEXITSTATUS(st) == 0)) { Violation v; v.inv = "worker-death"; v.msg = strf("the process died (status 0x%x)", st); o.viol.push_back(v); }
    return o;
}

// ------------------------------------------------------------------------- trigger signature
// A stable description of *what kind of history* fails, computed from the (minimised) plan.
static std::string classify(const PropDef &pd, const Plan &p, const Violation &v) {
    std::string kind = "?", opn = "END";
    const Op *o = nullptr;
    if (v.op >= 0 && v.op < (int)p.ops.size()) { o = &p.ops[v.op]; opn = OP_NAME[o->code]; if (o->slot >= 0 && o->slot < (int)p.slots.size()) kind = KIND_NAME[p.slots[o->slot]]; }
    else if (!p.slots.empty()) kind = KIND_NAME[p.slots[0]];
    std::string trig;
    if (o) {
        int k = p.slots[o->slot]; unsigned bs = kind_bs(k);
        if (o->flags & F_NULLOBJ) trig += "+null-object";
        if (o->flags & F_NULLA) trig += "+null-arg";
        if (o->flags & F_NULLOUT) trig += "+null-output";
        if ((o->code == OP_SETKEY || o->code == OP_SETTKEY) && !is_mantis(k) && o->size % bs != 0 && o->size > bs && o->size < 3 * bs) trig += "+partial-key";
        if (o->code == OP_INIT && o->failalloc) trig += "+alloc-failure";
        if (o->code == OP_ENC || o->code == OP_PENC || o->code == OP_PDEC || o->code >= OP_BENC) {
            // look back: how was the object keyed / the stream started?
            bool saw_ctr = false, rekey_after_data = false, data = false, partial = false, nulltweak = false;
            for (int i = v.op - 1; i >= 0; --i) {
                const Op &q = p.ops[i]; if (q.slot != o->slot) continue;
                if (q.code == OP_INIT) break;
                if (q.code == OP_SETCTR && !(q.flags & F_INJECTED)) { saw_ctr = true; break; }
                if (q.code == OP_ENC && q.size > 0) data = true;
                if ((q.code == OP_SETKEY || q.code == OP_SETTKEY || q.code == OP_SETTWEAK) && !(q.flags & F_INJECTED)) { if (!data) { /* key change directly before the failing call */ } }
            }
            // second pass in forward direction for mid-stream key/tweak changes
            bool flowing = false;
            for (int i = 0; i < v.op; ++i) {
                const Op &q = p.ops[i]; if (q.slot != o->slot || (q.flags & F_INJECTED)) continue;
                if (q.code == OP_INIT || q.code == OP_SETCTR) { flowing = false; rekey_after_data = false; }
                if (q.code == OP_ENC && q.size > 0) flowing = true;
                if ((q.code == OP_SETKEY || q.code == OP_SETTKEY || q.code == OP_SETTWEAK) && flowing) rekey_after_data = true;
                if ((q.code == OP_SETKEY || q.code == OP_SETTKEY) && !is_mantis(k) && q.size % bs != 0 && q.size > bs) partial = true; else if (q.code == OP_SETKEY || q.code == OP_SETTKEY) partial = false;
                if (q.code == OP_SETTWEAK && (q.flags & F_NULLA)) nulltweak = true;
            }
            if (is_ctr(k)) trig += rekey_after_data ? "+rekey-midstream" : saw_ctr ? "+explicit-counter" : "+default-counter";
            if (!(is_ctr(k) && rekey_after_data)) {
                if (partial) trig += "+partial-key";
                if (nulltweak) trig += "+null-tweak";
            }
        }
    }
    (void)pd;
    return v.inv + ":" + kind + ":" + opn + trig;
}

// ------------------------------------------------------------------------- replay files
static std::string g_outdir = "/verif/build/out";
static std::string write_replay(const PropDef &pd, uint64_t seed, uint64_t run, const Plan &p, const Violation &v, const std::string &path) {
    std::ofstream f(path);
    f << "# objsim replay file (DESIGN.md section 8).  Replay: ./check " << pd.id << " --replay " << path << "\n";
    f << "prop " << pd.id << "\n" << "flavour " << FLAVOUR << "\n" << "seed " << seed << "\n" << "run " << run << "\n";
    f << "expect " << v.inv << "\n" << "sig " << v.sig << "\n";
    f << "# violation: " << v.msg << "\n";
    f << plan_to_text(p);
    return path;
}
struct Replay { std::string prop, flavour, expect, sig; uint64_t seed = 0, run = 0; Plan plan; };
static bool read_replay(const std::string &path, Replay &r) {
    std::ifstream f(path); if (!f) return false;
    std::string ln;
    while (std::getline(f, ln)) {
        if (ln.empty() || ln[0] == '#') continue;
        std::istringstream is(ln); std::string t; is >> t;
        if (t == "prop") is >> r.prop; else if (t == "flavour") is >> r.flavour; else if (t == "seed") is >> r.seed; else if (t == "run") is >> r.run;
        else if (t == "expect") is >> r.expect; else if (t == "sig") is >> r.sig;
        else if (t == "slots") parse_slots_line(ln, r.plan);
        else if (t == "op") { Op o; if (parse_op_line(ln, o)) r.plan.ops.push_back(o); }
    }
    return !r.prop.empty();
}

// ------------------------------------------------------------------------- minimisation (delta debugging, forked trials)
static int g_trials = 0;
static bool g_min_hang = false;     // the violation being minimised is a call that never returned
// does the plan still produce a violation of invariant `inv`?  Runs in a forked child so that
// anything the trial does to the process cannot leak into the next trial.
static std::string classify(const PropDef &pd, const Plan &p, const Violation &v);
static std::string g_target_sig;
static bool still_fails(const PropDef &pd, const Plan &p, uint64_t seed, uint64_t run, const std::string &inv) {
    ++g_trials;
    fflush(stdout); fflush(stderr);
    pid_t pid = fork();
    if (pid == 0) {
        if (g_min_hang) install_watchdog(2);
        Outcome o = evaluate(pd, p, seed, run, false);
        bool hit = false; for (auto &v : o.viol) if (v.inv == inv && (g_target_sig.empty() || classify(pd, p, v) == g_target_sig)) hit = true;
        _exit(hit ? 1 : 0);
    }
    int st = 0; waitpid(pid, &st, 0);
    if (WIFEXITED(st)) { int ec = WEXITSTATUS(st); if (ec == 1) return true; if (ec == 77 && inv == "sanitizer-report") return true; return false; }
    if (WIFSIGNALED(st) && inv == "worker-death") return true;
    return false;
}
static Plan minimise(const PropDef &pd, Plan p, uint64_t seed, uint64_t run, const std::string &inv) {
    // ddmin over the operation list
    size_t n = 2;
    // every reproducing trial of a hang costs the watchdog budget: fewer of them
    const bool hang = g_min_hang;
    const int cap1 = hang ? 14 : 1500, cap2 = hang ? 18 : 2500;
    while (p.ops.size() >= 2 && g_trials < cap1) {
        size_t chunk = (p.ops.size() + n - 1) / n; bool reduced = false;
        for (size_t start = 0; start < p.ops.size(); start += chunk) {
            Plan q = p; size_t end = std::min(start + chunk, q.ops.size());
            erase_ops(q, start, end);
            if (!q.ops.empty() && still_fails(pd, q, seed, run, inv)) { p = q; n = std::max<size_t>(n - 1, 2); reduced = true; break; }
        }
        if (!reduced) { if (chunk <= 1) break; n = std::min(n * 2, p.ops.size()); }
    }
    // per-argument shrinking
    for (size_t i = 0; i < p.ops.size() && g_trials < cap2; ++i) {
        Op &o = p.ops[i];
        if ((o.code == OP_ENC || o.code == OP_PENC || o.code == OP_PDEC) && !(o.flags & F_CHAIN)) {
            unsigned bs = 8;
            unsigned cands[] = {0, 1, bs, 2 * bs, o.size / 2, o.size - 1, o.size - bs};
            for (unsigned c : cands) {
                if (c >= o.size) continue;
                if ((o.code != OP_ENC) && c % 16) continue;
                Plan q = p; Op &qo = q.ops[i]; qo.size = c; qo.a.resize(c); if (!qo.b.empty()) qo.b.resize(c);
                if (still_fails(pd, q, seed, run, inv)) { p = q; break; }
            }
        }
        {   // data bytes -> zeros
            Op &o2 = p.ops[i];
            bool nz = false; for (uint8_t b : o2.a) nz |= b != 0;
            if (nz) { Plan q = p; std::fill(q.ops[i].a.begin(), q.ops[i].a.end(), 0); if (still_fails(pd, q, seed, run, inv)) p = q; }
            bool nzb = false; for (uint8_t b : p.ops[i].b) nzb |= b != 0;
            if (nzb) { Plan q = p; std::fill(q.ops[i].b.begin(), q.ops[i].b.end(), 0); if (still_fails(pd, q, seed, run, inv)) p = q; }
        }
        if (p.ops[i].place) { Plan q = p; q.ops[i].place = 0; if (still_fails(pd, q, seed, run, inv)) p = q; }
        if (p.ops[i].flags & F_INPLACE) { Plan q = p; q.ops[i].flags &= ~F_INPLACE; if (still_fails(pd, q, seed, run, inv)) p = q; }
        if (p.ops[i].code == OP_INIT && p.ops[i].prefill) { Plan q = p; q.ops[i].prefill = 1; if (still_fails(pd, q, seed, run, inv)) p = q; }
    }
    return p;
}

// ------------------------------------------------------------------------- worker pool
struct Shared { volatile uint64_t cur_run[64]; volatile uint64_t done_runs[64]; };
static Shared *g_shared;

struct WorkerOut {
    uint64_t runs = 0, lib_calls = 0, ops = 0, skipped = 0, executions = 0, violations = 0;
};

static void worker_main(const PropDef &pd, uint64_t seed, uint64_t first, uint64_t total, int w, int nw, const std::string &path, bool want_fp, bool want_digest, uint64_t resume_from) {
    FILE *f = fopen(path.c_str(), resume_from ? "a" : "w");
    if (!f) _exit(2);
    WorkerOut W; int nsamples = 0;
    for (uint64_t i = first + w; i < first + total; i += nw) {
        if (i < resume_from) continue;
        g_shared->cur_run[w] = i;
        Plan p = make_plan(pd, seed, i);
        // C13: a real process only ever sees one CPU, so every simulated CPU model gets its own process
        Outcome o = pd.mode == M_GRID ? evaluate_isolated(pd, p, seed, i, false) : evaluate(pd, p, seed, i, false);
        ++W.runs; W.lib_calls += o.lib_calls; W.ops += o.ops; W.skipped += o.skipped; W.executions += o.executions;
        if (want_fp) fprintf(f, "F %llu %016llx\n", (unsigned long long)i, (unsigned long long)o.fingerprint);
        if (want_digest) fprintf(f, "D %llu %016llx\n", (unsigned long long)i, (unsigned long long)o.digest);
        for (auto &v : o.viol) {
            ++W.violations;
            std::string sig = classify(pd, p, v);
            std::string msg = v.msg; for (char &ch : msg) if (ch == '\n' || ch == '\t') ch = ' ';
            fprintf(f, "V %llu\t%s\t%d\t%s\t%s\n", (unsigned long long)i, v.inv.c_str(), v.op, sig.c_str(), msg.c_str());
            fflush(f);
            break;
        }
        if (nsamples < 2 && o.viol.empty() && p.ops.size() <= 14 && p.ops.size() >= 3) {
            ++nsamples; std::string s;
            for (auto &op : p.ops) { if (!s.empty()) s += "; "; s += op_brief(p, op); }
            fprintf(f, "X run %llu: %s\n", (unsigned long long)i, s.c_str());
        }
        g_shared->done_runs[w] = W.runs;
        // a tree on which calls hang, or on which hundreds of histories fail, is decided: do not spend the budget re-deciding it
        if (g_wd_timeouts >= 3 || W.violations >= 300) break;
    }
    g_shared->cur_run[w] = ~0ULL;
    fprintf(f, "S runs %llu\nS lib_calls %llu\nS ops %llu\nS skipped %llu\nS executions %llu\n", (unsigned long long)W.runs, (unsigned long long)W.lib_calls, (unsigned long long)W.ops, (unsigned long long)W.skipped, (unsigned long long)W.executions);
    fprintf(f, "S heap_allocs %llu\nS heap_frees %llu\nS heap_alloc_failures_injected %llu\nS cpu_traps %llu\n", (unsigned long long)g_heap.n_alloc, (unsigned long long)g_heap.n_free, (unsigned long long)g_heap.n_failed, (unsigned long long)g_cpu.n_traps);
    for (size_t i = 0; i < g_probes.names.size(); ++i) fprintf(f, "P %s %llu\n", g_probes.names[i].c_str(), (unsigned long long)g_probes.counts[i]);
    for (uint64_t h : g_cover.nontrivial) fprintf(f, "H %016llx\n", (unsigned long long)h);
    fclose(f);
    _exit(0);
}

// ------------------------------------------------------------------------- main
static std::string json_escape_lines(const std::vector<std::string> &v) { std::string s = "["; for (size_t i = 0; i < v.size(); ++i) { if (i) s += ","; s += jstr(v[i]); } return s + "]"; }

static int do_replay(const std::string &path, bool quiet) {
    Replay r; if (!read_replay(path, r)) { fprintf(stderr, "cannot read replay file %s\n", path.c_str()); return 2; }
    const PropDef *pd = find_prop(r.prop); if (!pd) { fprintf(stderr, "unknown property %s\n", r.prop.c_str()); return 2; }
    Outcome o = evaluate(*pd, r.plan, r.seed, r.run, true);
    if (!quiet) for (auto &l : o.trace) printf("%s\n", l.c_str());
    if (o.viol.empty()) { printf("REPLAY-CLEAN property=%s file=%s (no violation reproduced)\n", r.prop.c_str(), path.c_str()); return 0; }
    for (auto &v : o.viol) {
        std::string sig = classify(*pd, r.plan, v);
        printf("REPLAY-VIOLATION property=%s inv=%s sig=%s op=%d fingerprint=%016llx\n    %s\n", r.prop.c_str(), v.inv.c_str(), sig.c_str(), v.op, (unsigned long long)o.fingerprint, v.msg.c_str());
    }
    printf("VIOLATION property=%s replay=%s\n", r.prop.c_str(), path.c_str());
    return 1;
}

static std::string g_replaydir = "/verif/replays";
int main(int argc, char **argv) {
    std::string prop, out, replay; uint64_t seed = 1, runs = 0, first = 0; int nw = 16; bool want_fp = false, want_digest = false, quiet = false, dump = false; uint64_t dump_run = 0; std::string tier = "quick"; std::set<std::string> known;
    for (int i = 1; i < argc; ++i) {
        std::string a = argv[i];
        auto nxt = [&]() { return i + 1 < argc ? std::string(argv[++i]) : std::string(); };
        if (a == "--prop") prop = nxt(); else if (a == "--seed") seed = strtoull(nxt().c_str(), 0, 10); else if (a == "--runs") runs = strtoull(nxt().c_str(), 0, 10);
        else if (a == "--first") first = strtoull(nxt().c_str(), 0, 10);
        else if (a == "--workers") nw = atoi(nxt().c_str()); else if (a == "--out") out = nxt(); else if (a == "--replay") replay = nxt(); else if (a == "--replaydir") g_replaydir = nxt(); else if (a == "--outdir") g_outdir = nxt();
        else if (a == "--fingerprints") want_fp = true; else if (a == "--digests") want_digest = true; else if (a == "--tier") tier = nxt(); else if (a == "--quiet") quiet = true; else if (a == "--dump") { dump_run = strtoull(nxt().c_str(), 0, 10); dump = true; }
        else if (a == "--known") { std::string k = nxt(); size_t pos = 0; while (pos <= k.size()) { size_t c = k.find(',', pos); if (c == std::string::npos) c = k.size(); if (c > pos) known.insert(k.substr(pos, c - pos)); pos = c + 1; } }
    }
    disable_aslr_and_reexec(argv);
    { char buf[4096]; ssize_t n = readlink("/proc/self/exe", buf, sizeof buf - 1); if (n > 0) { buf[n] = 0; std::string e(buf); size_t b = e.rfind('/'); if (b != std::string::npos && b > 0) { size_t a = e.rfind('/', b - 1); if (a != std::string::npos) g_flavour = e.substr(a + 1, b - a - 1); } } }
    seams_init();
    build_grid();
    if (!g_spec.selftest()) { fprintf(stderr, "objsim: specification model failed its self-test against the published vectors\n"); return 2; }
    if (!replay.empty()) return do_replay(replay, quiet);
    const PropDef *pd = find_prop(prop);
    if (!pd) { fprintf(stderr, "usage: objsim --prop ID [--tier quick|thorough] [--seed N] [--runs N] [--workers N] [--out FILE] | --replay FILE\n"); return 2; }
    if (dump) {   // print the operation-level record of one seeded run (used to explain digest differences between builds)
        Plan p = make_plan(*pd, seed, dump_run);
        Outcome o = evaluate(*pd, p, seed, dump_run, true);
        for (auto &l : o.trace) printf("%s\n", l.c_str());
        printf("digest %016llx\n", (unsigned long long)o.digest);
        return 0;
    }
    if (!runs) runs = tier == "thorough" ? pd->thorough_runs : pd->quick_runs;
    if (pd->mode == M_GRID) { uint64_t full = 6ULL * g_grid.size(); runs = tier == "thorough" ? full : (runs ? runs : full / 3); if (tier != "thorough") first = (seed % 3) * (full / 3); }
    if (nw < 1) nw = 1; if (nw > 64) nw = 64;
    std::string cmd = "mkdir -p " + g_outdir; if (system(cmd.c_str())) {}
    g_shared = (Shared *)mmap(nullptr, sizeof(Shared), PROT_READ | PROT_WRITE, MAP_SHARED | MAP_ANONYMOUS, -1, 0);
    auto t0 = std::chrono::steady_clock::now();
    std::string base = g_outdir + "/" + prop + "-" + g_flavour + "-" + std::to_string(getpid());
    std::vector<pid_t> pids(nw); std::vector<std::string> paths(nw);
    struct Death { uint64_t run; int status; };
    std::vector<Death> deaths;
    for (int w = 0; w < nw; ++w) {
        paths[w] = base + "-w" + std::to_string(w) + ".txt";
        g_shared->cur_run[w] = ~0ULL;
        fflush(stdout);
        pid_t pid = fork(); if (pid == 0) worker_main(*pd, seed, first, runs, w, nw, paths[w], want_fp, want_digest, 0);
        pids[w] = pid;
    }
    int live = nw;
    while (live > 0) {
        int st = 0; pid_t pid = wait(&st); if (pid < 0) break;
        int w = -1; for (int i = 0; i < nw; ++i) if (pids[i] == pid) w = i;
        if (w < 0) continue;
        if (WIFEXITED(st) && WEXITSTATUS(st) == 0) { --live; pids[w] = -1; continue; }
        // a worker died: remember the run it was in and restart behind it
        uint64_t r = g_shared->cur_run[w];
        if (r == ~0ULL) { --live; pids[w] = -1; continue; }
        deaths.push_back({r, st});
        if (deaths.size() > 20) { --live; pids[w] = -1; continue; }
        fflush(stdout);
        pid_t np = fork(); if (np == 0) worker_main(*pd, seed, first, runs, w, nw, paths[w], want_fp, want_digest, r + 1);
        pids[w] = np;
    }
    double wall = std::chrono::duration<double>(std::chrono::steady_clock::now() - t0).count();

    // ---- merge
    std::map<std::string, uint64_t> stats, probes; std::set<uint64_t> cover; std::vector<std::string> samples;
    struct RawV { uint64_t run; std::string inv; int op; std::string sig, msg; };
    std::vector<RawV> raws; std::vector<std::pair<uint64_t, std::string>> fps, digs;
    for (int w = 0; w < nw; ++w) {
        std::ifstream f(paths[w]); std::string ln;
        while (std::getline(f, ln)) {
            if (ln.size() < 2) continue;
            if (ln[0] == 'S') { char k[64]; unsigned long long v; if (sscanf(ln.c_str(), "S %63s %llu", k, &v) == 2) stats[k] += v; }
            else if (ln[0] == 'P') { char k[128]; unsigned long long v; if (sscanf(ln.c_str(), "P %127s %llu", k, &v) == 2) probes[k] += v; }
            else if (ln[0] == 'H') cover.insert(strtoull(ln.c_str() + 2, 0, 16));
            else if (ln[0] == 'X') { if (samples.size() < 6) samples.push_back(ln.substr(2)); }
            else if (ln[0] == 'F') { unsigned long long r; char h[32]; if (sscanf(ln.c_str(), "F %llu %31s", &r, h) == 2) fps.push_back({r, h}); }
            else if (ln[0] == 'D') { unsigned long long r; char h[32]; if (sscanf(ln.c_str(), "D %llu %31s", &r, h) == 2) digs.push_back({r, h}); }
            else if (ln[0] == 'V') {
                std::vector<std::string> parts; size_t pos = 2; while (true) { size_t t = ln.find('\t', pos); if (t == std::string::npos) { parts.push_back(ln.substr(pos)); break; } parts.push_back(ln.substr(pos, t - pos)); pos = t + 1; }
                if (parts.size() >= 5) raws.push_back({strtoull(parts[0].c_str(), 0, 10), parts[1], atoi(parts[2].c_str()), parts[3], parts[4]});
            }
        }
        unlink(paths[w].c_str());
    }
    for (auto &d : deaths) {
        int ec = WIFEXITED(d.status) ? WEXITSTATUS(d.status) : -1;
        if (ec == 2) { fprintf(stderr, "objsim: harness fault in run %llu (exit 2)\n", (unsigned long long)d.run); return 2; }
        std::string inv = ec == 77 ? "sanitizer-report" : "worker-death";
        raws.push_back({d.run, inv, -1, inv + ":?:?", ec == 77 ? "the sanitizer build aborted with a report during this run" : strf("worker process died (status 0x%x) during this run", d.status)});
    }
    std::sort(raws.begin(), raws.end(), [](const RawV &a, const RawV &b) { return a.run < b.run; });

    // ---- violations: determinism gate, minimisation, replay files
    struct Final { RawV raw; std::string sig, replay, msg; size_t ops_before, ops_after; int trials; std::vector<std::string> trace; bool reproduced; };
    std::vector<Final> finals; std::map<std::string, int> per_sig; int harness_nondeterminism = 0;
    std::map<std::string, uint64_t> sig_counts;
    for (auto &rv : raws) ++sig_counts[rv.sig];
    // signatures that are not listed as known findings are handled first, so that a flood of a
    // known finding can never crowd out something new
    std::stable_sort(raws.begin(), raws.end(), [&](const RawV &a, const RawV &b) { return known.count(a.sig) < known.count(b.sig); });
    for (auto &rv : raws) {
        if (per_sig[rv.sig] >= 1 || finals.size() >= 8) continue;
        if (rv.inv == "no-progress" && per_sig["(hangs)"]++ >= 1) continue;     // every confirmation of a hang costs the watchdog budget: one is reported
        ++per_sig[rv.sig];
        Plan p = make_plan(*pd, seed, rv.run);
        if (rv.inv != "sanitizer-report" && rv.inv != "worker-death") {
            // determinism gate 1: the same seed twice, same fingerprint, same violation
            Outcome a = evaluate_isolated(*pd, p, seed, rv.run, false), b = evaluate_isolated(*pd, p, seed, rv.run, false);
            bool same = a.fingerprint == b.fingerprint && !a.viol.empty() && !b.viol.empty() && a.viol[0].inv == rv.inv && b.viol[0].inv == rv.inv;
            if (!same) { fprintf(stderr, "objsim: run %llu does not repeat (fingerprints %016llx / %016llx): harness nondeterminism\n", (unsigned long long)rv.run, (unsigned long long)a.fingerprint, (unsigned long long)b.fingerprint); ++harness_nondeterminism; --per_sig[rv.sig]; continue; }
        }
        g_trials = 0;
        g_target_sig = (rv.inv == "sanitizer-report" || rv.inv == "worker-death") ? "" : rv.sig;
        size_t before = p.ops.size();
        g_min_hang = rv.inv == "no-progress";
        Plan m = minimise(*pd, p, seed, rv.run, rv.inv);
        Final F; F.raw = rv; F.ops_before = before; F.ops_after = m.ops.size(); F.trials = g_trials; F.reproduced = false;
        Violation v; v.inv = rv.inv; v.op = rv.op; v.msg = rv.msg;
        if (rv.inv != "sanitizer-report" && rv.inv != "worker-death") {
            Outcome o = evaluate_isolated(*pd, m, seed, rv.run, true);
            for (auto &x : o.viol) if (x.inv == rv.inv) { v = x; break; }
            F.trace = o.trace;
        }
        v.sig = classify(*pd, m, v); F.sig = v.sig; F.msg = v.msg;
        if (system(("mkdir -p " + g_replaydir).c_str()) != 0) {}
        F.replay = strf("%s/%s-%s-%llu-%llu.replay", g_replaydir.c_str(), pd->id, FLAVOUR, (unsigned long long)seed, (unsigned long long)rv.run);
        write_replay(*pd, seed, rv.run, m, v, F.replay);
        // determinism gate 2: the minimised file must fail the same way in a fresh process
        {
            fflush(stdout);
            pid_t pid = fork();
            if (pid == 0) { int fd = open("/dev/null", 1); if (fd >= 0) { dup2(fd, 1); } execl("/proc/self/exe", "objsim", "--replay", F.replay.c_str(), "--quiet", (char *)0); _exit(3); }
            int st = 0; waitpid(pid, &st, 0);
            if (rv.inv == "sanitizer-report") F.reproduced = WIFEXITED(st) && WEXITSTATUS(st) == 77;
            else if (rv.inv == "worker-death") F.reproduced = WIFSIGNALED(st) || (WIFEXITED(st) && WEXITSTATUS(st) != 0);
            else F.reproduced = WIFEXITED(st) && WEXITSTATUS(st) == 1;
            if (!F.reproduced) { fprintf(stderr, "objsim: replay file %s did not reproduce in a fresh process: harness nondeterminism\n", F.replay.c_str()); ++harness_nondeterminism; }
        }
        finals.push_back(F);
    }

    // ---- summary JSON
    std::string j = "{\n";
    j += strf("  \"property\": %s, \"flavour\": %s, \"tier\": %s, \"seed\": %llu, \"first_run\": %llu, \"runs_requested\": %llu, \"workers\": %d, \"wall_s\": %.3f,\n", jstr(prop).c_str(), jstr(FLAVOUR).c_str(), jstr(tier).c_str(), (unsigned long long)seed, (unsigned long long)first, (unsigned long long)runs, nw, wall);
    j += "  \"stats\": {"; { bool f1 = true; for (auto &kv : stats) { j += strf("%s\"%s\": %llu", f1 ? "" : ", ", kv.first.c_str(), (unsigned long long)kv.second); f1 = false; } } j += "},\n";
    j += "  \"probes\": {"; { bool f1 = true; for (auto &kv : probes) { j += strf("%s%s: %llu", f1 ? "" : ", ", jstr(kv.first).c_str(), (unsigned long long)kv.second); f1 = false; } } j += "},\n";
    j += strf("  \"distinct_transitions\": %zu,\n", cover.size());
    j += "  \"transition_hashes\": ["; { bool f1 = true; for (uint64_t h : cover) { j += strf("%s\"%llx\"", f1 ? "" : ",", (unsigned long long)h); f1 = false; } } j += "],\n";
    j += "  \"samples\": " + json_escape_lines(samples) + ",\n";
    j += strf("  \"raw_violations\": %zu, \"harness_nondeterminism\": %d,\n", raws.size(), harness_nondeterminism);
    j += "  \"sig_counts\": {"; { bool f1 = true; for (auto &kv : sig_counts) { j += strf("%s%s: %llu", f1 ? "" : ", ", jstr(kv.first).c_str(), (unsigned long long)kv.second); f1 = false; } } j += "},\n";
    if (want_fp) { std::sort(fps.begin(), fps.end()); uint64_t h = 0; for (auto &x : fps) h = hash_comb(h, hash_comb(x.first, hash_str(x.second.c_str()))); j += strf("  \"fingerprint_of_fingerprints\": \"%016llx\", \"fingerprints\": %zu,\n", (unsigned long long)h, fps.size()); }
    if (want_digest) { std::sort(digs.begin(), digs.end()); j += "  \"digests\": {"; for (size_t i = 0; i < digs.size(); ++i) j += strf("%s\"%llu\": \"%s\"", i ? ", " : "", (unsigned long long)digs[i].first, digs[i].second.c_str()); j += "},\n"; }
    j += "  \"violations\": [\n";
    for (size_t i = 0; i < finals.size(); ++i) {
        auto &F = finals[i];
        j += strf("    {\"inv\": %s, \"sig\": %s, \"raw_sig\": %s, \"run\": %llu, \"op\": %d, \"msg\": %s, \"replay\": %s, \"ops_before\": %zu, \"ops_after\": %zu, \"trials\": %d, \"reproduced_in_fresh_process\": %s, \"occurrences\": %llu, \"trace\": %s}%s\n",
                  jstr(F.raw.inv).c_str(), jstr(F.sig).c_str(), jstr(F.raw.sig).c_str(), (unsigned long long)F.raw.run, F.raw.op, jstr(F.msg).c_str(), jstr(F.replay).c_str(), F.ops_before, F.ops_after, F.trials, F.reproduced ? "true" : "false", (unsigned long long)sig_counts[F.raw.sig], json_escape_lines(F.trace).c_str(), i + 1 < finals.size() ? "," : "");
    }
    j += "  ]\n}\n";
    if (!out.empty()) { std::ofstream f(out); f << j; } else fputs(j.c_str(), stdout);
    // see thrsim.cpp: non-repeating raw violations are a harness fault unless other violations were confirmed
    { size_t confirmed = 0; for (auto &F : finals) confirmed += F.reproduced; if (harness_nondeterminism && confirmed == 0) return 2; }
    return finals.empty() ? 0 : 1;
}
