#!/usr/bin/env python3
import os, sys
V = os.path.dirname(os.path.dirname(os.path.abspath(__file__)))
sys.path.insert(0, os.path.join(V, "mk"))
import props
ctx = props.Ctx(V, os.environ.get("VERIF_REPO", "/repo"), os.path.join(V, "build"), "setup", "quick", 1)
os.makedirs(ctx.B, exist_ok=True)
for fl in ("plain", "o0", "asan"):
    props.build_flavour(ctx, fl, targets=("objsim", "hugesim") if fl == "plain" else ("objsim",))
    print("built", fl)
try:
    import engines
    engines.prebuild(ctx)
except ImportError:
    pass
