// toolsim: the three example tools run as whole programs over a simulated file layer (C20).
// Each run forks a child (the tools keep option state in globals), populates SimFS, calls the
// tool's renamed main() with a generated argv, and returns exit status and the resulting files.
#include "seams.hpp"
#include "lib.hpp"
#include "pool.hpp"
#include <chrono>
#include <fcntl.h>
#include <errno.h>

extern "C" {
int tool_main_skinny_ctr(int, char **);
int tool_main_skinny_tweak(int, char **);
int tool_main_skinny_ecb(int, char **);
extern int optind, opterr, optopt;
}

// ----------------------------------------------------------------------------- SimFS
struct SimFile { Bytes data; bool opened_r = false, opened_w = false; uint64_t reads = 0, short_reads = 0, writes = 0, write_errors = 0; };
struct SimFS {
    std::map<std::string, SimFile> files;
    int chunk_policy = 0; Rng rng;
    long fail_write_after = -1;     // fault configuration only
    long fail_read_after = -1;
    uint64_t unknown_opens = 0;
} g_fs;
struct Cookie { SimFile *f; size_t pos; bool writing; long written; bool append; };

static ssize_t ck_read(void *c, char *buf, size_t n) {
    Cookie *k = (Cookie *)c; SimFile &f = *k->f;
    size_t left = f.data.size() - k->pos; if (n > left) n = left;
    if (g_fs.fail_read_after >= 0 && (long)k->pos >= g_fs.fail_read_after) { errno = EIO; return -1; }
    size_t give = n;
    switch (g_fs.chunk_policy) {
    case 1: give = 1; break;
    case 2: give = 1 + g_fs.rng.below(17); break;
    case 3: give = 1023; break;
    case 4: give = 7; break;
    case 5: give = 1 + g_fs.rng.below(2000); break;
    default: break;
    }
    if (give > n) give = n;
    ++f.reads; if (give < n) ++f.short_reads;
    memcpy(buf, f.data.data() + k->pos, give); k->pos += give;
    return (ssize_t)give;
}
static ssize_t ck_write(void *c, const char *buf, size_t n) {
    Cookie *k = (Cookie *)c; SimFile &f = *k->f;
    ++f.writes;
    if (g_fs.fail_write_after >= 0 && k->written + (long)n > g_fs.fail_write_after) { ++f.write_errors; errno = ENOSPC; return 0; }
    if (k->append) k->pos = f.data.size();
    if (k->pos + n > f.data.size()) f.data.resize(k->pos + n);
    memcpy(f.data.data() + k->pos, buf, n); k->pos += n; k->written += (long)n;
    return (ssize_t)n;
}
static int ck_seek(void *c, off64_t *off, int whence) {
    Cookie *k = (Cookie *)c; long base = whence == SEEK_SET ? 0 : whence == SEEK_CUR ? (long)k->pos : (long)k->f->data.size();
    long np = base + (long)*off; if (np < 0) return -1; k->pos = (size_t)np; *off = np; return 0;
}
static int ck_close(void *c) { delete (Cookie *)c; return 0; }

// fopen() with the semantics of its mode string: "r" needs the file; "r+" needs it and neither truncates nor creates;
// "w"/"w+" create or truncate; "a"/"a+" create and append.
extern "C" FILE *simfs_fopen(const char *path, const char *mode) {
    bool plus = strchr(mode, '+') != nullptr; char m = mode[0];
    auto it = g_fs.files.find(path);
    if (m == 'r') {
        if (it == g_fs.files.end()) { errno = ENOENT; return nullptr; }
        it->second.opened_r = true; if (plus) it->second.opened_w = true;
        cookie_io_functions_t io = {ck_read, plus ? ck_write : nullptr, ck_seek, ck_close};
        return fopencookie(new Cookie{&it->second, 0, plus, 0, false}, plus ? "r+" : "r", io);
    }
    SimFile &f = g_fs.files[path]; f.opened_w = true; if (plus) f.opened_r = true;
    if (m == 'w') f.data.clear();
    cookie_io_functions_t io = {plus ? ck_read : nullptr, ck_write, ck_seek, ck_close};
    return fopencookie(new Cookie{&f, m == 'a' ? f.data.size() : 0, true, 0, m == 'a'}, m == 'a' ? (plus ? "a+" : "a") : (plus ? "w+" : "w"), io);
}
extern "C" FILE *simfs_fopen64(const char *p, const char *m) { return simfs_fopen(p, m); }
extern "C" FILE *simfs_freopen(const char *p, const char *m, FILE *) { return simfs_fopen(p, m); }
extern "C" int simfs_open(const char *, int, ...) { ++g_fs.unknown_opens; errno = EACCES; return -1; }
extern "C" int simfs_creat(const char *, int) { ++g_fs.unknown_opens; errno = EACCES; return -1; }

// ----------------------------------------------------------------------------- run description
struct ToolRun {
    int tool = 0;                 // 0 ctr, 1 tweak, 2 ecb
    std::vector<std::string> argv;
    Bytes input;
    bool input_exists = true;
    Bytes old_output; bool output_exists = false;     // the output path may already hold a (longer or shorter) file
    int chunk_policy = 0; uint64_t chunk_seed = 0;
    // model side
    bool valid = true; std::string why_invalid;
    unsigned bs = 16; Bytes key; Bytes ctr; bool have_ctr = false; bool decrypt = false;
    long fail_write_after = -1, fail_read_after = -1;
};
static const char *TOOLN[] = {"skinny-ctr", "skinny-tweak", "skinny-ecb"};

static std::string spell_hex(Rng &r, const Bytes &v) {
    std::string s; int style = r.below(5);
    for (size_t i = 0; i < v.size(); ++i) {
        char b[4]; snprintf(b, sizeof b, (style == 1 || (style == 4 && r.chance(1, 2))) ? "%02X" : "%02x", v[i]); s += b;
        if (i + 1 < v.size()) { if (style == 2) s += ":"; else if (style == 3) s += r.chance(1, 2) ? " " : "."; else if (style == 4 && r.chance(1, 4)) s += ": "; }
    }
    return s;
}

static ToolRun make_run(uint64_t seed, uint64_t run, bool fault_cfg) {
    Rng r(seed, run, "tool");
    ToolRun T; T.tool = run % 3; T.bs = r.chance(1, 2) ? 16 : 8; T.chunk_policy = r.below(6); T.chunk_seed = r.next();
    unsigned bs = T.bs; unsigned maxk = T.tool == 1 ? 2 * bs : 3 * bs;
    static const unsigned lens[] = {0, 1, 7, 8, 9, 15, 16, 17, 1023, 1024, 1025, 2047, 2048, 2049, 3000};
    unsigned n = r.chance(1, 2) ? lens[r.below(15)] : (r.chance(1, 3) ? 2048 + r.below(64) : r.below(5001));
    if (r.chance(1, 60)) n = 60000 + r.below(12000);       // rarely a file longer than 64 KiB
    T.input = r.bytes(n);
    unsigned klen = r.chance(1, 2) ? bs * r.range(1, maxk / bs) : r.range(bs, maxk);
    T.key = r.bytes(klen);
    T.have_ctr = T.tool != 2 && r.chance(2, 3);
    if (T.have_ctr) { unsigned cl = r.chance(1, 2) ? bs : r.range(1, bs); T.ctr = r.bytes(cl); if (r.chance(1, 4)) std::fill(T.ctr.begin(), T.ctr.end(), 0xFF); if (r.chance(1, 6) && cl) { std::fill(T.ctr.begin(), T.ctr.end(), 0xFF); T.ctr[cl - 1] = 0xFD; } }
    T.decrypt = T.tool != 0 && r.chance(1, 3);
    if (r.chance(1, 3)) { T.output_exists = true; T.old_output = r.bytes(r.chance(1, 2) ? n + 1 + r.below(300) : r.below(n + 1)); }
    int invalid = (!fault_cfg && r.chance(1, 4)) ? 1 + r.below(9) : 0;
    std::vector<std::string> a; a.push_back(TOOLN[T.tool]);
    std::string bopt = bs == 8 ? "64" : "128";
    bool give_b = bs == 8 || r.chance(1, 2);
    std::string keyhex = spell_hex(r, T.key), ctrhex = spell_hex(r, T.ctr);
    std::string in = "in.bin", out = "out.bin";
    switch (invalid) {
    case 1: keyhex.clear(); T.why_invalid = "missing key"; break;
    case 2: { unsigned bad = r.chance(1, 2) ? r.range(1, bs - 1) : maxk + 1 + r.below(48 - maxk + 1 > 0 ? 48 - maxk + 1 : 1); if (bad > 48) bad = bs - 1; T.key = r.bytes(bad); keyhex = spell_hex(r, T.key); T.why_invalid = strf("key of %u bytes for block size %u (legal: %u..%u)", bad, bs * 8, bs, maxk); if (bad >= bs && bad <= maxk) invalid = 0; break; }
    case 3: if (T.tool != 2) { unsigned bad = bs + 1 + r.below(16 - bs + 4); Bytes c = r.bytes(bad); ctrhex = spell_hex(r, c); T.have_ctr = true; T.why_invalid = strf("counter/tweak of %u bytes for block size %u", bad, bs * 8); } else { give_b = true; bopt = "32"; T.why_invalid = "bad -b"; } break;
    case 4: { static const char *bad[] = {"32", "256", "x", "65", "71", "129", "135", "64bit", "128x", "0", "63", "127", "064", " 64", "1280", "8", "16"}; give_b = true; bopt = bad[r.below(17)]; T.why_invalid = "bad -b value"; break; }
    case 5: keyhex[r.below((uint32_t)keyhex.size())] = r.chance(1, 2) ? 'g' : '/'; T.why_invalid = "bad hex digit in key"; break;
    case 6: T.why_invalid = "unknown option"; break;
    case 7: T.why_invalid = "missing file names"; break;
    case 8: T.input_exists = false; T.why_invalid = "unreadable input"; break;
    case 9: { Bytes longk = r.bytes(49 + r.below(8)); keyhex = spell_hex(r, longk); T.why_invalid = "key longer than 48 bytes"; break; }
    default: break;
    }
    T.valid = invalid == 0;
    // options in a seeded order: the result must not depend on it
    std::vector<std::vector<std::string>> groups;
    if (give_b) { if (r.chance(1, 2)) groups.push_back({"-b" + bopt}); else groups.push_back({"-b", bopt}); }
    if (invalid == 6) groups.push_back({r.chance(1, 2) ? "-x" : "-Z"});
    if (invalid != 1) { if (r.chance(1, 4)) groups.push_back({"-k" + keyhex}); else groups.push_back({"-k", keyhex}); }
    if (T.have_ctr) groups.push_back({T.tool == 1 ? (r.chance(3, 4) ? "-t" : "-c") : "-c", ctrhex});
    if (T.decrypt) groups.push_back({"-d"});
    for (size_t i = groups.size(); i > 1; --i) std::swap(groups[i - 1], groups[r.below((uint32_t)i)]);
    for (auto &g : groups) for (auto &x : g) a.push_back(x);
    if (invalid == 7) { if (r.chance(1, 2)) a.push_back(in); } else { a.push_back(in); a.push_back(out); }
    T.argv = a;
    if (fault_cfg) { if (r.chance(1, 2)) T.fail_write_after = r.below(n + 1); else T.fail_read_after = r.below(n + 1); }
    return T;
}

// ----------------------------------------------------------------------------- model (library API, as README.md describes the tools)
static Bytes model_output(const ToolRun &T, const Bytes &input, bool decrypt) {
    unsigned bs = T.bs; Bytes out;
    Bytes ctr = T.have_ctr ? T.ctr : Bytes(bs, 0);
    if (T.tool == 0) {
        out.resize(input.size());
        if (bs == 16) { Skinny128CTR_t c; skinny128_ctr_init(&c); skinny128_ctr_set_key(&c, T.key.data(), T.key.size()); skinny128_ctr_set_counter(&c, ctr.data(), ctr.size()); skinny128_ctr_encrypt(out.data(), input.data(), input.size(), &c); skinny128_ctr_cleanup(&c); }
        else { Skinny64CTR_t c; skinny64_ctr_init(&c); skinny64_ctr_set_key(&c, T.key.data(), T.key.size()); skinny64_ctr_set_counter(&c, ctr.data(), ctr.size()); skinny64_ctr_encrypt(out.data(), input.data(), input.size(), &c); skinny64_ctr_cleanup(&c); }
        return out;
    }
    size_t nb = input.size() / bs; out.resize(nb * bs);
    if (T.tool == 2) {
        if (bs == 16) { Skinny128Key_t ks; skinny128_set_key(&ks, T.key.data(), T.key.size()); for (size_t i = 0; i < nb; ++i) (decrypt ? skinny128_ecb_decrypt : skinny128_ecb_encrypt)(out.data() + i * 16, input.data() + i * 16, &ks); }
        else { Skinny64Key_t ks; skinny64_set_key(&ks, T.key.data(), T.key.size()); for (size_t i = 0; i < nb; ++i) (decrypt ? skinny64_ecb_decrypt : skinny64_ecb_encrypt)(out.data() + i * 8, input.data() + i * 8, &ks); }
        return out;
    }
    // skinny-tweak: block i under tweak0 + i, big-endian over the given tweak length
    Bytes tw = ctr;
    for (size_t i = 0; i < nb; ++i) {
        if (bs == 16) { Skinny128TweakedKey_t ks; skinny128_set_tweaked_key(&ks, T.key.data(), T.key.size()); skinny128_set_tweak(&ks, tw.data(), tw.size()); (decrypt ? skinny128_ecb_decrypt : skinny128_ecb_encrypt)(out.data() + i * 16, input.data() + i * 16, &ks.ks); }
        else { Skinny64TweakedKey_t ks; skinny64_set_tweaked_key(&ks, T.key.data(), T.key.size()); skinny64_set_tweak(&ks, tw.data(), tw.size()); (decrypt ? skinny64_ecb_decrypt : skinny64_ecb_encrypt)(out.data() + i * 8, input.data() + i * 8, &ks.ks); }
        unsigned carry = 1; for (size_t j = tw.size(); j > 0;) { --j; carry += tw[j]; tw[j] = (uint8_t)carry; carry >>= 8; }
    }
    return out;
}

// ----------------------------------------------------------------------------- one invocation in a child process
struct Invocation { int status = -1; bool died = false; int sig = 0; bool out_opened = false; Bytes out; uint64_t reads = 0, short_reads = 0, write_errors = 0; };

static Invocation invoke(const ToolRun &T, const Bytes &input, const std::vector<std::string> &argv_s) {
    int fd[2]; Invocation I; if (pipe(fd) != 0) return I;
    fflush(stdout); fflush(stderr);
    pid_t pid = fork();
    if (pid == 0) {
        close(fd[0]);
        int dn = open("/dev/null", O_WRONLY); if (dn >= 0) { dup2(dn, 2); }
        g_fs.files.clear(); g_fs.chunk_policy = T.chunk_policy; g_fs.rng = Rng(T.chunk_seed); g_fs.fail_write_after = T.fail_write_after; g_fs.fail_read_after = T.fail_read_after;
        if (T.input_exists) g_fs.files["in.bin"].data = input;
        if (T.output_exists) g_fs.files["out.bin"].data = T.old_output;
        std::vector<std::string> as = argv_s; std::vector<char *> av; for (auto &s : as) av.push_back(&s[0]); av.push_back(nullptr);
        optind = 1; opterr = 0;
        int rc = T.tool == 0 ? tool_main_skinny_ctr((int)as.size(), av.data()) : T.tool == 1 ? tool_main_skinny_tweak((int)as.size(), av.data()) : tool_main_skinny_ecb((int)as.size(), av.data());
        FILE *f = fdopen(fd[1], "w");
        auto it = g_fs.files.find("out.bin");
        bool opened = false; for (auto &kv : g_fs.files) if (kv.first != "in.bin" && kv.second.opened_w) opened = true;
        if (g_fs.files.count("in.bin") && g_fs.files["in.bin"].opened_w) opened = true;
        SimFile *in = g_fs.files.count("in.bin") ? &g_fs.files["in.bin"] : nullptr;
        fprintf(f, "R %d %d %llu %llu %llu %llu\n", rc, opened ? 1 : 0, (unsigned long long)(in ? in->reads : 0), (unsigned long long)(in ? in->short_reads : 0), (unsigned long long)(it != g_fs.files.end() ? it->second.write_errors : 0), (unsigned long long)g_fs.unknown_opens);
        if (it != g_fs.files.end()) fprintf(f, "O %s\n", hex(it->second.data).c_str());
        fclose(f); _exit(0);
    }
    close(fd[1]); FILE *f = fdopen(fd[0], "r"); char *line = nullptr; size_t cap = 0;
    while (getline(&line, &cap, f) > 0) {
        if (line[0] == 'R') { int rc, op; unsigned long long a, b, c, d; if (sscanf(line, "R %d %d %llu %llu %llu %llu", &rc, &op, &a, &b, &c, &d) == 6) { I.status = rc; I.out_opened = op; I.reads = a; I.short_reads = b; I.write_errors = c; } }
        else if (line[0] == 'O') { std::string h(line + 2); while (!h.empty() && (h.back() == '\n')) h.pop_back(); I.out = unhex(h); }
    }
    free(line); fclose(f); int st = 0; waitpid(pid, &st, 0);
    if (!(WIFEXITED(st) && WEXITSTATUS(st) == 0)) { I.died = true; I.sig = WIFSIGNALED(st) ? WTERMSIG(st) : -WEXITSTATUS(st); }
    return I;
}

struct Finding { std::string kind, msg; };
struct Stats { uint64_t reads = 0, short_reads = 0, write_errors = 0, invalid = 0, valid = 0, fault_runs = 0, fault_crashes = 0; };

static std::vector<Finding> evaluate(const ToolRun &T, Stats &S) {
    std::vector<Finding> F;
    std::string cmd; for (auto &a : T.argv) cmd += (cmd.empty() ? "" : " ") + (a.find(' ') != std::string::npos ? "'" + a + "'" : a);
    Invocation I = invoke(T, T.input, T.argv);
    S.reads += I.reads; S.short_reads += I.short_reads; S.write_errors += I.write_errors;
    if (T.fail_write_after >= 0 || T.fail_read_after >= 0) {   // fault configuration: the property is silent about I/O failure; only crashes are counted (never a violation)
        ++S.fault_runs; if (I.died) ++S.fault_crashes; return F;
    }
    if (I.died) { F.push_back({"tool-crash", strf("`%s` on a %zu-byte input died (signal/exit %d)", cmd.c_str(), T.input.size(), I.sig)}); return F; }
    if (!T.valid) {
        ++S.invalid;
        if (I.status == 0) F.push_back({"invalid-accepted", strf("`%s` (%s) exited 0", cmd.c_str(), T.why_invalid.c_str())});
        else if (I.out_opened) F.push_back({"invalid-produced-output", strf("`%s` (%s) exited %d but opened the output file for writing", cmd.c_str(), T.why_invalid.c_str(), I.status)});
        else if (T.output_exists && I.out != T.old_output) F.push_back({"invalid-produced-output", strf("`%s` (%s) exited %d but changed the existing output file", cmd.c_str(), T.why_invalid.c_str(), I.status)});
        return F;
    }
    ++S.valid;
    if (I.status != 0) { F.push_back({"valid-rejected", strf("`%s` on a %zu-byte input exited %d", cmd.c_str(), T.input.size(), I.status)}); return F; }
    Bytes exp = model_output(T, T.input, T.decrypt);
    if (I.out != exp) {
        size_t q = 0; while (q < exp.size() && q < I.out.size() && exp[q] == I.out[q]) ++q;
        F.push_back({"output-mismatch", strf("`%s` on a %zu-byte input wrote %zu bytes, the library gives %zu bytes; first difference at byte %zu", cmd.c_str(), T.input.size(), I.out.size(), exp.size(), q)});
        return F;
    }
    // second application restores the data (ctr: same command; ecb/tweak: toggled -d)
    ToolRun T2 = T; std::vector<std::string> a2 = T.argv;
    if (T.tool != 0) { auto it = std::find(a2.begin(), a2.end(), "-d"); if (it != a2.end()) a2.erase(it); else a2.insert(a2.begin() + 1, "-d"); T2.decrypt = !T.decrypt; }
    T2.chunk_policy = (T.chunk_policy + 1) % 6;
    Invocation J = invoke(T2, I.out, a2);
    S.reads += J.reads; S.short_reads += J.short_reads;
    Bytes want(T.input.begin(), T.input.begin() + (T.tool == 0 ? T.input.size() : T.input.size() / T.bs * T.bs));
    if (J.died || J.status != 0 || J.out != want) F.push_back({"roundtrip", strf("`%s` then the inverse invocation does not restore the %zu input bytes (second exit %d, %zu bytes)", cmd.c_str(), want.size(), J.status, J.out.size())});
    return F;
}

static void write_replay(const std::string &path, const ToolRun &T, uint64_t seed, uint64_t run, const Finding &f) {
    std::ofstream o(path);
    o << "# toolsim replay file\nengine toolsim\nprop C20\nflavour tools\nseed " << seed << "\nrun " << run << "\nexpect " << f.kind << "\nsig " << f.kind << ":" << TOOLN[T.tool] << "\n# violation: " << f.msg << "\n";
    o << "tool " << T.tool << "\nbs " << T.bs << "\nvalid " << T.valid << "\ndecrypt " << T.decrypt << "\nhave_ctr " << T.have_ctr << "\ninput_exists " << T.input_exists << "\nchunk " << T.chunk_policy << " " << T.chunk_seed << "\n";
    o << "key " << hex(T.key) << "\nctr " << hex(T.ctr) << "\ninput " << hex(T.input) << "\nwhy " << T.why_invalid << "\n";
    if (T.output_exists) o << "oldoutput " << (T.old_output.empty() ? "-" : hex(T.old_output)) << "\n";
    for (auto &a : T.argv) o << "arg " << a << "\n";
}
static bool read_replay(const std::string &path, ToolRun &T) {
    std::ifstream f(path); if (!f) return false; std::string ln;
    while (std::getline(f, ln)) {
        if (ln.empty() || ln[0] == '#') continue;
        size_t sp = ln.find(' '); std::string k = ln.substr(0, sp), v = sp == std::string::npos ? "" : ln.substr(sp + 1);
        if (k == "tool") T.tool = atoi(v.c_str()); else if (k == "bs") T.bs = atoi(v.c_str()); else if (k == "valid") T.valid = atoi(v.c_str()); else if (k == "decrypt") T.decrypt = atoi(v.c_str());
        else if (k == "have_ctr") T.have_ctr = atoi(v.c_str()); else if (k == "input_exists") T.input_exists = atoi(v.c_str());
        else if (k == "chunk") { unsigned long long s; sscanf(v.c_str(), "%d %llu", &T.chunk_policy, &s); T.chunk_seed = s; }
        else if (k == "key") T.key = unhex(v); else if (k == "ctr") T.ctr = unhex(v); else if (k == "input") T.input = unhex(v); else if (k == "why") T.why_invalid = v; else if (k == "oldoutput") { T.output_exists = true; if (v != "-") T.old_output = unhex(v); } else if (k == "arg") T.argv.push_back(v);
    }
    return !T.argv.empty();
}

int main(int argc, char **argv) {
    std::string out, replay, tier = "quick", outdir = "/verif/build/out", replaydir = "/verif/replays"; uint64_t seed = 1, runs = 0, first = 0; int nw = 16; bool fault_cfg = false;
    for (int i = 1; i < argc; ++i) {
        std::string a = argv[i]; auto nxt = [&]() { return i + 1 < argc ? std::string(argv[++i]) : std::string(); };
        if (a == "--seed") seed = strtoull(nxt().c_str(), 0, 10); else if (a == "--runs") runs = strtoull(nxt().c_str(), 0, 10); else if (a == "--first") first = strtoull(nxt().c_str(), 0, 10);
        else if (a == "--workers") nw = atoi(nxt().c_str()); else if (a == "--out") out = nxt(); else if (a == "--replay") replay = nxt(); else if (a == "--tier") tier = nxt(); else if (a == "--outdir") outdir = nxt();
        else if (a == "--replaydir") replaydir = nxt(); else if (a == "--faults") fault_cfg = true; else if (a == "--prop") nxt();
    }
    SimCPU::install();      // the library objects carry the CPUID trap; no model is set, so the real CPU answers
    if (!replay.empty()) {
        ToolRun T; if (!read_replay(replay, T)) { fprintf(stderr, "cannot read %s\n", replay.c_str()); return 2; }
        Stats S; auto F = evaluate(T, S);
        std::string cmd; for (auto &a : T.argv) cmd += a + " "; printf("command: %s (input %zu bytes, read-chunk policy %d)\n", cmd.c_str(), T.input.size(), T.chunk_policy);
        if (F.empty()) { printf("REPLAY-CLEAN property=C20 file=%s\n", replay.c_str()); return 0; }
        for (auto &f : F) printf("REPLAY-VIOLATION property=C20 inv=%s\n    %s\n", f.kind.c_str(), f.msg.c_str());
        printf("VIOLATION property=C20 replay=%s\n", replay.c_str()); return 1;
    }
    if (!runs) runs = tier == "thorough" ? 200000 : 6000;
    if (system(("mkdir -p " + outdir + " " + replaydir).c_str())) {}
    auto t0 = std::chrono::steady_clock::now();
    Stats S; std::set<uint64_t> cover; uint64_t nruns = 0; int nsamp = 0;
    PoolResult pr = run_pool(nw, first, runs, outdir + "/C20-" + std::to_string(getpid()),
        [&](uint64_t i, FILE *f) {
            fflush(f);
            ToolRun T = make_run(seed, i, fault_cfg);
            auto F = evaluate(T, S); ++nruns;
            unsigned n = (unsigned)T.input.size();
            unsigned lenc = n == 0 ? 0 : n < T.bs ? 1 : n % T.bs == 0 ? (n % 1024 == 0 ? 2 : 3) : (n > 1024 ? 5 : 4);
            cover.insert(hash_comb(hash_comb(T.tool * 100 + T.bs, (uint64_t)T.key.size() << 16 | (T.have_ctr ? T.ctr.size() + 1 : 0) << 8 | lenc), (uint64_t)T.valid << 8 | T.decrypt << 4 | T.chunk_policy));
            if (!F.empty()) { std::string m = F[0].msg; for (char &c : m) if (c == '\t' || c == '\n') c = ' '; fprintf(f, "V %llu\t%s\t%s:%s\t%s\n", (unsigned long long)i, F[0].kind.c_str(), F[0].kind.c_str(), TOOLN[T.tool], m.c_str()); fflush(f); }
            if (nsamp < 2) { ++nsamp; std::string cmd; for (auto &a : T.argv) cmd += a + " "; fprintf(f, "X run %llu: %s(input %zu bytes, chunk policy %d, %s)\n", (unsigned long long)i, cmd.c_str(), T.input.size(), T.chunk_policy, T.valid ? "valid" : T.why_invalid.c_str()); }
        },
        [&](FILE *f) {
            fprintf(f, "S runs %llu\nS reads %llu\nS short_reads %llu\nS write_errors_injected %llu\nS invalid_invocations %llu\nS valid_invocations %llu\nS fault_runs %llu\nS fault_crashes %llu\n", (unsigned long long)nruns, (unsigned long long)S.reads, (unsigned long long)S.short_reads, (unsigned long long)S.write_errors, (unsigned long long)S.invalid, (unsigned long long)S.valid, (unsigned long long)S.fault_runs, (unsigned long long)S.fault_crashes);
            for (uint64_t h : cover) fprintf(f, "H %016llx\n", (unsigned long long)h);
        });
    double wall = std::chrono::duration<double>(std::chrono::steady_clock::now() - t0).count();
    std::map<std::string, uint64_t> stats; std::set<std::string> hashes; std::vector<std::string> samples;
    struct RawV { uint64_t run; std::string kind, sig, msg; }; std::vector<RawV> raws;
    for (auto &ln : pr.lines) {
        if (ln.size() < 2) continue;
        if (ln[0] == 'S') { char k[64]; unsigned long long v; if (sscanf(ln.c_str(), "S %63s %llu", k, &v) == 2) stats[k] += v; }
        else if (ln[0] == 'H') hashes.insert(ln.substr(2)); else if (ln[0] == 'X') { if (samples.size() < 5) samples.push_back(ln.substr(2)); }
        else if (ln[0] == 'V') { std::vector<std::string> parts; size_t pos = 2; while (true) { size_t t = ln.find('\t', pos); if (t == std::string::npos) { parts.push_back(ln.substr(pos)); break; } parts.push_back(ln.substr(pos, t - pos)); pos = t + 1; } if (parts.size() >= 4) raws.push_back({strtoull(parts[0].c_str(), 0, 10), parts[1], parts[2], parts[3]}); }
    }
    for (auto &d : pr.deaths) raws.push_back({d.first, "worker-death", "worker-death", strf("worker died with status 0x%x", d.second)});
    std::sort(raws.begin(), raws.end(), [](const RawV &a, const RawV &b) { return a.run < b.run; });
    std::map<std::string, uint64_t> sigc; for (auto &r : raws) ++sigc[r.sig];
    std::string vj; std::set<std::string> seen; int nfinal = 0, nondet = 0;
    for (auto &rv : raws) {
        if (seen.count(rv.sig) || nfinal >= 6) continue; seen.insert(rv.sig);
        ToolRun T = make_run(seed, rv.run, fault_cfg); Stats s2;
        auto A = evaluate(T, s2), B = evaluate(T, s2);
        if (rv.kind != "worker-death" && (A.empty() || B.empty() || A[0].kind != rv.kind || B[0].kind != rv.kind)) { fprintf(stderr, "toolsim: run %llu does not repeat\n", (unsigned long long)rv.run); ++nondet; continue; }
        // minimise: shorter inputs, simplest read-chunk policy
        size_t before = T.input.size(); int trials = 0;
        auto fails = [&](const ToolRun &Q) { Stats s3; ++trials; auto F = evaluate(Q, s3); return !F.empty() && F[0].kind == rv.kind; };
        if (rv.kind != "worker-death") {
            { ToolRun Q = T; Q.chunk_policy = 0; if (fails(Q)) T = Q; }
            for (size_t cand : {(size_t)0, (size_t)T.bs, (size_t)T.bs + 1, (size_t)2 * T.bs, (size_t)1024, (size_t)1025, T.input.size() / 2, T.input.size() - 1}) { if (cand >= T.input.size()) continue; ToolRun Q = T; Q.input.resize(cand); if (fails(Q)) T = Q; }
            { ToolRun Q = T; std::fill(Q.input.begin(), Q.input.end(), 0); if (fails(Q)) T = Q; }
        }
        Stats s4; auto Ff = evaluate(T, s4); Finding fnd{rv.kind, rv.msg}; if (!Ff.empty()) fnd = Ff[0];
        std::string path = strf("%s/C20-tools-%llu-%llu.replay", replaydir.c_str(), (unsigned long long)seed, (unsigned long long)rv.run);
        write_replay(path, T, seed, rv.run, fnd);
        fflush(stdout); pid_t pid = fork(); if (pid == 0) { int fd = open("/dev/null", 1); if (fd >= 0) dup2(fd, 1); execl("/proc/self/exe", "toolsim", "--replay", path.c_str(), (char *)0); _exit(3); }
        int st = 0; waitpid(pid, &st, 0); bool rep = WIFEXITED(st) && WEXITSTATUS(st) == 1; if (!rep && rv.kind != "worker-death") { fprintf(stderr, "toolsim: replay %s did not reproduce\n", path.c_str()); ++nondet; }
        std::string cmd; for (auto &a : T.argv) cmd += a + " ";
        vj += strf("%s    {\"inv\": %s, \"sig\": %s, \"run\": %llu, \"op\": -1, \"msg\": %s, \"replay\": %s, \"ops_before\": %zu, \"ops_after\": %zu, \"trials\": %d, \"reproduced_in_fresh_process\": %s, \"occurrences\": %llu, \"trace\": [%s]}",
                   nfinal ? ",\n" : "", jstr(rv.kind).c_str(), jstr(rv.sig).c_str(), (unsigned long long)rv.run, jstr(fnd.msg).c_str(), jstr(path).c_str(), before, T.input.size(), trials, rep ? "true" : "false", (unsigned long long)sigc[rv.sig], jstr("command: " + cmd + strf("(input %zu bytes)", T.input.size())).c_str());
        ++nfinal;
    }
    std::string j = "{\n";
    j += strf("  \"property\": \"C20\", \"flavour\": \"tools%s\", \"tier\": %s, \"seed\": %llu, \"first_run\": %llu, \"runs_requested\": %llu, \"workers\": %d, \"wall_s\": %.3f,\n", fault_cfg ? "+iofaults" : "", jstr(tier).c_str(), (unsigned long long)seed, (unsigned long long)first, (unsigned long long)runs, nw, wall);
    j += "  \"stats\": {"; { bool f1 = true; for (auto &kv : stats) { j += strf("%s\"%s\": %llu", f1 ? "" : ", ", kv.first.c_str(), (unsigned long long)kv.second); f1 = false; } } j += "},\n  \"probes\": {},\n";
    j += "  \"transition_hashes\": ["; { bool f1 = true; for (auto &h : hashes) { j += (f1 ? "" : ",") + jstr(h); f1 = false; } } j += "],\n";
    j += "  \"samples\": ["; for (size_t i = 0; i < samples.size(); ++i) j += (i ? "," : "") + jstr(samples[i]); j += "],\n";
    j += strf("  \"raw_violations\": %zu, \"harness_nondeterminism\": %d,\n  \"violations\": [\n%s\n  ]\n}\n", raws.size(), nondet, vj.c_str());
    if (!out.empty()) { std::ofstream f(out); f << j; } else fputs(j.c_str(), stdout);
    if (nondet) return 2;
    return nfinal ? 1 : 0;
}
