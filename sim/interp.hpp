// objsim interpreter: executes a plan against the real library under the
// seams, with the reference models running beside every object.
#pragma once
#include "seams.hpp"
#include "lib.hpp"
#include "model.hpp"

enum Life { L_RAW = 0, L_ZEROED, L_INIT, L_FAILED, L_CLEANED };
static const char *const LIFE_NAME[] = {"raw", "zeroed", "init", "failed-init", "cleaned"};

enum {
    CK_RET = 1 << 0,        // return values as the validity / life-cycle model predicts
    CK_OUT = 1 << 1,        // output bytes equal the reference model
    CK_HEAP = 1 << 2,       // allocation ledger
    CK_WIPE = 1 << 3,       // blocks are all-zero at the instant of free
    CK_UNCHANGED = 1 << 4,  // rejected calls leave object, context and output untouched
    CK_FRESH = 1 << 5,      // tweak history independence + specification model as E
    CK_PAD = 1 << 6,        // reference keyed with the zero-padded primary-size key
    CK_RTRIP = 1 << 7,      // inverse round trips
    CK_MEM = 1 << 8,        // buffer extents (canaries, inputs unmodified)
    CK_FAILINIT = 1 << 9,   // after a failed init the object is inert and nothing leaked
    CK_SELECT = 1 << 10,    // back-end selection matches the CPU model
    CK_MSCHED = 1 << 11,    // Mantis schedule equals "keyed afresh + tweak re-applied"
};

struct Violation {
    std::string inv;        // invariant id, e.g. "stream-mismatch"
    int op = -1;
    std::string msg;
    std::string sig;        // stable trigger signature (filled by classify())
};

struct OpObs {
    int ret = -2;           // -1: void call, -2: not executed (skipped)
    bool skipped = false;
    bool crashed = false;
    Bytes out;
    Bytes snap;             // canonical key-schedule image after the op (key-schedule kinds)
    int backend = -1;
    int life = 0;           // life-cycle state of the slot after the op
};

struct ExecCfg {
    uint32_t checks = 0;
    uint64_t world = 1;         // stack / heap / caller-memory garbage
    int cpu_override = -1;      // -1: as the plan says; 0..2: every INIT uses this pinning model
    bool trace = false;
    bool epilogue_cleanup = true;   // clean up still-initialised objects at the end, then require an empty heap
    int heap_place = -1;        // force a SimHeap placement policy
    const std::vector<CpuModel> *grid = nullptr;   // models for cpu index >= 3
    bool use_junk_regs = false;
    bool strip_injected = false;    // skip ops flagged F_INJECTED (C14 differential)
    bool allow_odd = false;         // C06: also execute calls that return 1 but have no model (set_tweak on a CTR object whose key was set without a tweak): every back end must still agree.  Data before any key stays excluded (caller error; the scalar decryptor forms a pointer before the schedule array then)
};

struct SlotState {
    int kind = 0; uint8_t *h = nullptr; size_t hsize = 0;
    int life = L_RAW; int backend = -1;
    bool keyed = false, tweaked = false;
    Bytes key; unsigned keysize = 0; int rounds = 0, mode = 1;
    uint8_t tweak[16];
    Skinny128TweakedKey_t r128; Skinny64TweakedKey_t r64; MantisKey_t rm;
    uint8_t ctr[16]; uint8_t ks[16]; unsigned ksoff = 16;
    bool stream_ok = true;          // C05's definedness: no key/tweak change since data started flowing
    bool data_since_reset = false;
    uint64_t stream_pos = 0;
    int nswaps = 0;
};

struct Probes {
    std::vector<std::string> names; std::vector<uint64_t> counts;
    int reg(const char *n) { for (size_t i = 0; i < names.size(); ++i) if (names[i] == n) return (int)i; names.push_back(n); counts.push_back(0); return (int)names.size() - 1; }
    void hit(const std::string &n, uint64_t k = 1) { counts[reg(n.c_str())] += k; }
};
extern Probes g_probes;
#define PROBE(name) do { static int _pid = g_probes.reg(name); ++g_probes.counts[_pid]; } while (0)

struct Coverage {
    std::set<uint64_t> all, nontrivial;
    void add(uint64_t h, bool nt) { all.insert(h); if (nt) nontrivial.insert(h); }
};
extern Coverage g_cover;

struct RunResult {
    std::vector<OpObs> obs;
    std::vector<Violation> viol;
    uint64_t fingerprint = 0;
    uint64_t events = 0;
    uint64_t lib_calls = 0;
    std::vector<std::string> trace;
    int leaked_blocks = 0;
};

RunResult execute(const Plan &plan, const ExecCfg &cfg);
extern volatile int g_trace_gate;   // 1 only while a real (non-model) library call of an operation runs (ctsim)
extern volatile int g_trace_op;
extern SpecSkinny g_spec;
