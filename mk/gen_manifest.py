#!/usr/bin/env python3
"""Regenerates /verif/MANIFEST.json (kept in a script so that it stays consistent with the checks)."""
import json, os, subprocess
V = os.path.dirname(os.path.dirname(os.path.abspath(__file__)))
TECH = "deterministic simulation with fault injection: "
P = {
 "C03": ("objsim", "exploration", "Seeded object histories with inverse round trips through every entry point (single-block, parallel on each simulated host) and Mantis mode-switch histories compared field-wise with a schedule keyed afresh. Thin fit: the simulator contributes the history and the CPU model; sampling, not proof.", "5/C03",
         TECH + "seeded object-history simulation (objsim), reference-model oracle, CPU model selects the back end"),
 "C04": ("objsim", "exploration", "Seeded tweak-change histories on tweaked schedules and CTR objects on each back end; history independence checked field-wise after every change and every block against an independent specification model of SKINNY.", "5/C04",
         TECH + "seeded tweak-history simulation (objsim), fresh-object and specification-model oracles"),
 "C05": ("objsim", "exploration", "Seeded CTR streams fragmented by a simulated transport on every cipher x back end (CPU models), compared byte-for-byte with a scalar stream model; carries, wrap-around, short/NULL/default counters and batch-boundary cuts are aimed at and counted by probes.", "5/C05",
         TECH + "seeded stream-fragmentation simulation (objsim) against a CTR stream model, simulated CPU selects the back end"),
 "C06": ("objsim", "exploration", "One free history (including key/tweak changes inside a SIMD batch, invalid calls, cleanup/re-init) replayed on 2-3 simulated hosts whose CPUID answers select different back ends; all return values and outputs must agree.", "5/C06",
         TECH + "one seeded history replayed on several simulated hosts (CPU models), differential oracle"),
 "C07": ("objsim", "exploration", "Every block count 0..3*batch+3 on every parallel object kind x simulated host, compared block-by-block with the scalar functions; block-count dimension enumerated, data sampled. Thin fit.", "5/C07",
         TECH + "objsim with CPU models; block counts enumerated, scalar reference model"),
 "C08": ("ctsim", "exploration", "Restricted sense: paired replay. Each seeded public plan is executed with five secret assignments under identical simulated addresses; the recorded sequence of basic blocks and of every load and store of library code, reads of constant tables included (compiler instrumentation with out-of-line call-backs of our own), must be identical. Sees IR-level branches/addresses of instrumented builds (gcc -O3, gcc -O0, clang -O3, hook-selected 32-bit paths), not micro-architectural timing.", "5/C08",
         TECH + "exact paired replay with trace equality (ctsim): same public schedule, different secrets, branch/address traces compared"),
 "C09": ("objsim", "exploration", "Simulator-placed buffers (guard pages, verified junk slabs, any alignment, overlap offsets, exact aliasing) on every buffer-taking function; results compared with the model computed from a private copy; plus an ASan/UBSan build. Thin fit.", "5/C09",
         TECH + "objsim with simulated buffer placement (guard pages, canaries) and sanitizer build"),
 "C10": ("objsim", "exploration", "Every key-setting entry point x every length 0..3bs+16 plus huge values enumerated by run index on dirtied stacks in -O3, -O0 and ASan builds; accepted lengths compared field-wise with the zero-padded key, rejected ones must leave the object bit-identical.", "5/C10",
         TECH + "objsim with stack-garbage injection; key lengths enumerated; zero-padding reference model"),
 "C11": ("objsim", "exploration", "Dual-world execution (same calls, different stack/heap/caller-memory garbage) plus digest comparison of identical seeds across -O3, -O0 and clang builds; any result computed from garbage shows as a difference.", "5/C11",
         TECH + "dual-world simulation (garbage injection into stack, heap and caller memory) and cross-build digest comparison"),
 "C12": ("cfgsim", "exploration", "One seed = one history replayed on every build configuration (compiler x -O level x word size x unaligned x SIMD/byte-order paths; 12 pairwise-covering builds quick, all 128 thorough); digests of API-visible results must be equal.", "5/C12",
         TECH + "one seeded history replayed bit-identically on a matrix of build configurations (cfgsim), differential oracle"),
 "C13": ("objsim", "fault_enumeration", "Complete grid of simulated CPUID/XGETBV models x six init functions x three junk register/stack contexts, one process per CPU model (quick: a seeded third of the grid).", "5/C13",
         TECH + "simulated CPU (CPUID/XGETBV trap emulation) enumerated over a model grid with junk register contexts"),
 "C14": ("objsim", "exploration", "Invalid calls injected as faults anywhere in valid histories, on every object state; return 0, untouched object/context/output, and differential re-execution without the injected calls.", "5/C14",
         TECH + "invalid-call fault injection into seeded histories (objsim); model and differential oracles"),
 "C15": ("objsim", "exploration", "Object life-cycle histories under a simulated allocator that is the monitor: exact-once free with the returned pointer, inaccessible cells after free, empty heap after final cleanup.", "5/C15",
         TECH + "simulated allocator as monitor over seeded life-cycle histories (objsim)"),
 "C16": ("objsim", "fault_enumeration", "Allocation failure injected at each allocation of each init x back end x class of prior handle content (enumerated), followed by a sampled tail of calls.", "5/C16",
         TECH + "allocation-failure injection enumerated over init x back end x allocation index x handle content (objsim)"),
 "C17": ("objsim", "exploration", "The simulated allocator scans every block at the instant of free for non-zero bytes; histories weighted to rich states; non-triviality (block held data) is measured.", "5/C17",
         TECH + "simulated allocator inspects blocks at free() over seeded histories (objsim)"),
 "C18": ("thrsim", "exploration", "2-4 simulated threads (coroutines) pre-empted by a seeded scheduler at every compiler-visible memory access of library code; results compared with sequential execution; race monitor and global-write monitor. One seed = one interleaving.", "5/C18",
         TECH + "seeded scheduler over cooperative tasks pre-empted at every instrumented memory access (thrsim); race and global-write monitors"),
 "C19": ("ardsim", "exploration", "Seeded call histories on the 11 Arduino block-cipher classes and CTR<T>, with the C library object driven by the same history as reference model. Thin fit: no environment seam.", "5/C19",
         TECH + "seeded call histories with the C library as executable reference model (ardsim)"),
 "C20": ("toolsim", "exploration", "The three example tools run as whole programs (one process per invocation) over a simulated file layer with seeded read chunking; output compared with the library API, inverse invocation restores the input, invalid invocations must not open the output. A separate I/O-fault configuration only counts crashes.", "5/C20",
         TECH + "whole-program simulation over a simulated file layer (toolsim) with seeded short reads and I/O-fault configuration"),
}
NOTE = {"objsim": "Trusted: the simulator's seams (SimHeap, SimCPU trap emulation, SimDirt, SimMem) and models; the library runs as real code compiled from /repo's working tree with the repository's flags (gcc -O3), plus -O0 and clang ASan/UBSan flavours. Sampling: a clean run is evidence, not proof.",
        "ctsim": "Trusted: compiler instrumentation (-fsanitize=kernel-address with out-of-line call-backs, -fsanitize-coverage=trace-pc) reports every basic block and every load/store of library code including constant-table reads; libc memcpy/memset calls are not traced; seven secret assignments per public plan.",
        "thrsim": "Trusted: interleavings at compiler-visible-access granularity under sequential consistency; the instrumented build has the same sharing structure as the shipped one.",
        "cfgsim": "Trusted: the SKINNY_VERIF hook only overrides the five platform switches; -m32 and big-endian hosts are out of reach.",
        "toolsim": "Trusted: SimFS (fopencookie streams) and the tool model derived from examples/README.md and the usage text.",
        "ardsim": "Trusted: the mapping between Arduino classes and C entry points documented in DESIGN.md 5/C19; AVR assembly path out of reach."}
checks = []
for pid, (eng, cat, text, ref, tech) in sorted(P.items()):
    checks.append({"property_id": pid, "quick_cmd": "./check %s --quick" % pid, "thorough_cmd": "./check %s --thorough" % pid, "evidence_file": "/verif/evidence/%s.json" % pid,
                   "replay_cmd_template": "./check %s --replay {path}" % pid, "engine": eng, "level_claimed": {"category": cat, "text": text, "design_ref": "DESIGN.md section " + ref},
                   "level_note": NOTE[eng], "technique": tech})
hook = subprocess.run(["git", "-C", "/repo", "log", "--format=%H", "--grep=^verif hook"], capture_output=True, text=True).stdout.split()
by_engine = {}
for pid, v in P.items():
    by_engine.setdefault(v[0], []).append(pid)
m = {"version": 1, "setup_cmd": "./setup",
     "hooks": {"guard": "SKINNY_VERIF", "enable": "cfgsim builds every library source with -DSKINNY_VERIF -DSKINNY_VERIF_64BIT=<0|1> -DSKINNY_VERIF_UNALIGNED=<0|1> -DSKINNY_VERIF_LITTLE_ENDIAN=<0|1> -DSKINNY_VERIF_VEC128_MATH=<0|1> -DSKINNY_VERIF_VEC256_MATH=<0|1>; all other engines build with the guard off (their seams are link-time/assembly-time, see DESIGN.md section 2)",
               "baseline_off_cmd": "make -C /repo clean && make -C /repo && make -C /repo check", "source_commits": hook, "add_only": True},
     "engines": [{"name": "objsim", "path": "/verif/sim/objsim.cpp", "serves_properties": sorted(by_engine["objsim"]), "kind_free_text": "object-history deterministic simulator: seeded plans with attached faults, simulated allocator/CPU/garbage/placement, reference models, forked worker pool, ddmin, replay files"},
                 {"name": "ctsim", "path": "/verif/sim/objsim.cpp (mode M_CT) + /verif/sim/tsanrt.cpp", "serves_properties": ["C08"], "kind_free_text": "paired-replay trace equality over compiler-instrumented library builds"},
                 {"name": "thrsim", "path": "/verif/sim/thrsim.cpp", "serves_properties": ["C18"], "kind_free_text": "coroutine tasks under a seeded scheduler pre-empting at instrumented memory accesses; race/global-write monitors"},
                 {"name": "cfgsim", "path": "/verif/mk/engines.py (check_c12)", "serves_properties": ["C12"], "kind_free_text": "build-configuration differential: digests of seeded histories across a build matrix"},
                 {"name": "toolsim", "path": "/verif/sim/toolsim.cpp", "serves_properties": ["C20"], "kind_free_text": "example tools over a simulated file layer, one process per invocation"},
                 {"name": "ardsim", "path": "/verif/sim/ardsim.cpp", "serves_properties": ["C19"], "kind_free_text": "Arduino classes against the C library as reference model over seeded histories"}],
     "checks": checks,
     "not_applicable": [
         {"property_id": "C01", "reason": "pure function of (key, block): no schedule, fault, clock, allocator, CPU probe or history enters; deciding it is input coverage or proof, not simulation (DESIGN.md 5/C01)"},
         {"property_id": "C02", "reason": "pure function of (key, tweak, block, rounds, mode); the small stateful residue (fresh schedule has the zero tweak, stored vs per-call tweak) is exercised under C03/C07 (DESIGN.md 5/C02)"}],
     "notes": "See DESIGN.md. Replay files are plain text under /verif/replays; repaired defects and (currently no) open findings in /verif/known_findings.txt."}
json.dump(m, open(os.path.join(V, "MANIFEST.json"), "w"), indent=1)
print("MANIFEST.json written:", len(checks), "checks")
