#!/bin/sh
# Flake hunt: every quick check on the unchanged tree with several different VERIF_SEED values.
# Any line printed besides the per-seed summary is a false alarm (or a genuine finding) to be investigated.
cd /verif
ALL="C03 C04 C05 C06 C07 C08 C09 C10 C11 C12 C13 C14 C15 C16 C17 C18 C19 C20"
S=$(mktemp -d /tmp/sweep.XXXXXX); trap 'rm -rf "$S"' EXIT
for seed in "$@"; do
  bad=0
  for id in $ALL; do
    out=$(VERIF_SEED=$seed VERIF_EVIDENCE=$S/ev VERIF_REPLAYS=$S/rp ./check $id --quick 2>&1); rc=$?
    if [ $rc -ne 0 ] || echo "$out" | grep -q "VIOLATION\|KNOWN-FINDING\|HARNESS\|WARNING: reach"; then bad=1; echo "seed $seed $id rc=$rc"; echo "$out" | grep -E "VIOLATION|KNOWN|HARNESS|WARNING|^---- " | head -5 | cut -c1-250; fi
  done
  echo "seed $seed done (bad=$bad)"
done
