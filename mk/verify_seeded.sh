#!/bin/sh
# usage: mk/verify_seeded.sh PATCH 'demo command (run from the scratch worktree root)'
# Confirms independently: unchanged tree -> demo exits 0; changed tree -> compiles, suite 30/30, demo exits non-zero.
PATCH=$(readlink -f "$1"); DEMO="$2"
S=$(mktemp -d /tmp/vs.XXXXXX); trap 'rm -rf "$S"' EXIT
git -C /repo archive HEAD | tar -x -C "$S" --one-top-level=repo
cd "$S/repo" || exit 2
make >/dev/null 2>&1 || { echo "UNCHANGED BUILD FAILED"; exit 2; }
sh -c "$DEMO" > "$S/u.log" 2>&1; U=$?
git init -q . 2>/dev/null; git apply "$PATCH" || { echo "PATCH DOES NOT APPLY"; exit 2; }
make > "$S/b.log" 2>&1 || { echo "CHANGED BUILD FAILED"; tail -5 "$S/b.log"; exit 2; }
OK=$(make check 2>/dev/null | grep -c ": ok")
sh -c "$DEMO" > "$S/c.log" 2>&1; C=$?
echo "unchanged: demo exit $U ($(tail -1 "$S/u.log" | cut -c1-80)) | changed: suite $OK/30 ok, demo exit $C ($(grep -m1 -i fail "$S/c.log" | cut -c1-100))"
[ "$U" = 0 ] && [ "$OK" = 30 ] && [ "$C" != 0 ] && echo "CONFIRMED $(basename $(dirname $PATCH))/$(basename $PATCH)" || echo "NOT-CONFIRMED $(basename $(dirname $PATCH))/$(basename $PATCH)"
