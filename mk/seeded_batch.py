#!/usr/bin/env python3
"""Batch-process seeded changes delivered by sub-agents.

usage: mk/seeded_batch.py SRC_DIR OUT_JSON [PID...]
SRC_DIR/<PID>/{patch.diff,demo.*,README.txt,patch2.diff,demo2.*,README2.txt}

For every patch: extract the demo command from the demo's header comment, confirm the change independently
(mk/verify_seeded.sh), then run the target property's quick check (and one neighbour) with mk/try_patch.sh.
"""
import os, re, sys, json, subprocess, glob

V = os.path.dirname(os.path.dirname(os.path.abspath(__file__)))
NEIGHBOUR = {"C03": "C07", "C05": "C06", "C06": "C05", "C07": "C03", "C13": "C18", "C14": "C15", "C15": "C14", "C16": "C15", "C10": "C14", "C11": "C04", "C04": "C11", "C17": "C15", "C09": "C05"}


def demo_command(path):
    if path.endswith(".sh"):
        return "sh " + path
    lines = open(path, errors="replace").read().split("\n")[:80]
    cleaned = [re.sub(r"^\s*(/\*+|\*+/?|//+|#)\s?", "", l).rstrip() for l in lines]
    for i, l in enumerate(cleaned):
        s = l.strip()
        if re.match(r"^(cc|gcc|g\+\+|c\+\+|clang|clang\+\+)(\s|$)", s) or s.startswith("A=") or (s.startswith("sh ") and "demo" in s):
            cmd = s
            j = i
            while cmd.endswith("\\") and j + 1 < len(cleaned):
                j += 1
                cmd = cmd[:-1].rstrip() + " " + cleaned[j].strip()
            # a following line that starts with && belongs to it; an "A=..." prefix line joins the next command
            while j + 1 < len(cleaned) and (cleaned[j + 1].strip().startswith("&&") or cmd.startswith("A=") and not re.search(r"\b(cc|gcc|g\+\+)\b", cmd)):
                j += 1
                nxt = cleaned[j].strip()
                cmd = cmd + ("; " if cmd.startswith("A=") and not nxt.startswith("&&") and ";" not in cmd else " ") + nxt
                while cmd.endswith("\\") and j + 1 < len(cleaned):
                    j += 1
                    cmd = cmd[:-1].rstrip() + " " + cleaned[j].strip()
            if os.path.basename(path) not in cmd and path not in cmd:
                continue
            if path not in cmd:
                cmd = re.sub(r"(?<![\w/])" + re.escape(os.path.basename(path)), path, cmd)
            cmd = re.sub(r"\s*\*/\s*$", "", cmd)                       # end of a one-line C comment
            cmd = re.sub(r"/tmp/wt\d*-C\d+/", "", cmd)                 # the author's own worktree -> the scratch tree (cwd)
            return cmd
    return None


def main():
    src, out = sys.argv[1], sys.argv[2]
    pids = sys.argv[3:] or sorted(os.listdir(src))
    results = json.load(open(out)) if os.path.exists(out) else {}
    for pid in pids:
        d = os.path.join(src, pid)
        for n, suffix in (("1", ""), ("2", "2")):
            name = "%s-%s" % (pid, n)
            patch = os.path.join(d, "patch%s.diff" % suffix)
            if not os.path.exists(patch) or name in results:
                continue
            demos = [f for f in glob.glob(os.path.join(d, "demo%s.*" % suffix)) if re.search(r"\.(c|cpp|cc|sh)$", f)]
            if not demos:
                results[name] = {"status": "no-demo"}
                continue
            cmd = demo_command(demos[0])
            if not cmd:
                results[name] = {"status": "no-command", "demo": demos[0]}
                continue
            v = subprocess.run([os.path.join(V, "mk", "verify_seeded.sh"), patch, cmd], capture_output=True, text=True).stdout.strip().split("\n")
            confirmed = any(l.startswith("CONFIRMED") for l in v)
            r = {"status": "confirmed" if confirmed else "not-confirmed", "verify": v[-2:], "demo": demos[0], "cmd": cmd, "patch": patch}
            if confirmed:
                checks = [pid] + ([NEIGHBOUR[pid]] if pid in NEIGHBOUR else [])
                p = subprocess.run([os.path.join(V, "mk", "try_patch.sh"), patch] + checks, capture_output=True, text=True, env=dict(os.environ, LINES_MAX="6"))
                caught, cur = {}, None
                for ln in p.stdout.split("\n"):
                    m = re.match(r"=== (C\d+) against", ln)
                    if m:
                        cur = m.group(1); caught.setdefault(cur, {"sigs": [], "summary": None})
                    m = re.match(r"---- (C\d+) violated: (\S+)", ln)
                    if m:
                        caught[m.group(1)]["sigs"].append(m.group(2))
                    m = re.match(r"(C\d+) quick: .*", ln)
                    if m:
                        caught[m.group(1)]["summary"] = ln
                    if "HARNESS" in ln and cur:
                        caught[cur]["summary"] = ln
                r["checks"] = caught
            results[name] = r
            json.dump(results, open(out, "w"), indent=1)
            st = r["status"]
            if confirmed:
                st += " " + " ".join("%s:%s" % (k, ("CAUGHT(%s)" % v["sigs"][0]) if v["sigs"] else ("silent" if v["summary"] and "violation" in v["summary"] else "NO-SUMMARY")) for k, v in r["checks"].items())
            print(name, st, flush=True)


if __name__ == "__main__":
    main()
