// ardsim: the Arduino cipher classes (portable C++ path) driven by seeded call histories, with the
// C library object driven by the same history as the reference model (C19).
#include "seams.hpp"
#include "pool.hpp"
#include <chrono>
#include <memory>
#include <sstream>
#include <fcntl.h>
#include "Skinny128.h"
#include "Skinny64.h"
#include "Mantis8.h"
#include "CTR.h"
extern "C" {
#include "skinny128-cipher.h"
#include "skinny64-cipher.h"
#include "mantis-cipher.h"
}

enum AOp { A_SETKEY, A_SETTWEAK, A_SWAP, A_ENC, A_DEC, A_CLEAR, A_SETIV, A_CENC, A_CDEC, A_SETCSIZE, A_NOPS };
static const char *AOPN[] = {"setKey", "setTweak", "swapModes", "encryptBlock", "decryptBlock", "clear", "setIV", "encrypt", "decrypt", "setCounterSize"};
struct Op { int code = 0; uint32_t len = 0; bool null = false, inplace = false; Bytes a; };
struct Hist { int cls = 0; std::vector<Op> ops;
              int pre_cls = -1; Bytes pre_key, pre_blk; };     // a companion object of another block-cipher class, keyed and used before (and after) the history: the classes must not share hidden state

// class table: 0-10 block ciphers, 11-15 CTR<T> over the five Skinny-128 classes
struct ClassInfo { const char *name; int fam; unsigned bs, keylen; bool tweaked; bool ctr; };
static const ClassInfo CLS[] = {
    {"Skinny128_128", 0, 16, 16, false, false}, {"Skinny128_256", 0, 16, 32, false, false}, {"Skinny128_256_Tweaked", 0, 16, 16, true, false},
    {"Skinny128_384", 0, 16, 48, false, false}, {"Skinny128_384_Tweaked", 0, 16, 32, true, false},
    {"Skinny64_64", 1, 8, 8, false, false}, {"Skinny64_128", 1, 8, 16, false, false}, {"Skinny64_128_Tweaked", 1, 8, 8, true, false},
    {"Skinny64_192", 1, 8, 24, false, false}, {"Skinny64_192_Tweaked", 1, 8, 16, true, false}, {"Mantis8", 2, 8, 16, true, false},
    {"CTR<Skinny128_128>", 0, 16, 16, false, true}, {"CTR<Skinny128_256>", 0, 16, 32, false, true}, {"CTR<Skinny128_256_Tweaked>", 0, 16, 16, true, true},
    {"CTR<Skinny128_384>", 0, 16, 48, false, true}, {"CTR<Skinny128_384_Tweaked>", 0, 16, 32, true, true},
    // the CTR template over 64-bit-block classes: the shipped code refuses the key (its counter logic is 16 bytes wide); an
    // implementation that accepts it instead has to produce what the C library's 64-bit CTR produces
    {"CTR<Skinny64_128>", 1, 8, 16, false, true}, {"CTR<Mantis8>", 2, 8, 16, false, true}};
static const int NCLS = 18;

struct Ard {
    std::unique_ptr<BlockCipher> bc; std::unique_ptr<CTRCommon> ctr;
    bool (*setTweak)(Ard &, const uint8_t *, size_t) = nullptr; void (*swap)(Ard &) = nullptr;
};
template <class T> static bool tw(Ard &a, const uint8_t *t, size_t n) { return static_cast<T *>(a.bc.get())->setTweak(t, n); }
static Ard make_ard(int c) {
    Ard a;
    switch (c) {
    case 0: a.bc.reset(new Skinny128_128); break; case 1: a.bc.reset(new Skinny128_256); break;
    case 2: a.bc.reset(new Skinny128_256_Tweaked); a.setTweak = tw<Skinny128_256_Tweaked>; break;
    case 3: a.bc.reset(new Skinny128_384); break;
    case 4: a.bc.reset(new Skinny128_384_Tweaked); a.setTweak = tw<Skinny128_384_Tweaked>; break;
    case 5: a.bc.reset(new Skinny64_64); break; case 6: a.bc.reset(new Skinny64_128); break;
    case 7: a.bc.reset(new Skinny64_128_Tweaked); a.setTweak = tw<Skinny64_128_Tweaked>; break;
    case 8: a.bc.reset(new Skinny64_192); break;
    case 9: a.bc.reset(new Skinny64_192_Tweaked); a.setTweak = tw<Skinny64_192_Tweaked>; break;
    case 10: a.bc.reset(new Mantis8); a.setTweak = tw<Mantis8>; a.swap = [](Ard &x) { static_cast<Mantis8 *>(x.bc.get())->swapModes(); }; break;
    case 11: a.ctr.reset(new CTR<Skinny128_128>); break; case 12: a.ctr.reset(new CTR<Skinny128_256>); break; case 13: a.ctr.reset(new CTR<Skinny128_256_Tweaked>); break;
    case 14: a.ctr.reset(new CTR<Skinny128_384>); break; case 15: a.ctr.reset(new CTR<Skinny128_384_Tweaked>); break;
    case 16: a.ctr.reset(new CTR<Skinny64_128>); break; case 17: a.ctr.reset(new CTR<Mantis8>); break;
    }
    return a;
}

// reference model: the C library object
struct CRef {
    Skinny128TweakedKey_t k128; Skinny64TweakedKey_t k64; MantisKey_t km; Skinny128CTR_t ctr; bool ctr_init = false;
    Skinny64CTR_t c64; MantisCTR_t cm; bool c64_init = false, cm_init = false;
    bool keyed = false, iv_set = false;
    bool fresh_iv = false; uint8_t last_iv[16] = {0};     // setIV() with no data since: a following setKey() must leave the counter alone
    bool csize_restricted = false;                         // setCounterSize(s < 16): the carry stops early, which the C library has no equivalent for - streams are not compared until it is 16 again
    bool zero_iv_pending = false;     // clear() left the all-zero counter and no buffered keystream: the next setKey alone defines the stream
    ~CRef() { if (ctr_init) skinny128_ctr_cleanup(&ctr); if (c64_init) skinny64_ctr_cleanup(&c64); if (cm_init) mantis_ctr_cleanup(&cm); }
};

static Hist make_hist(uint64_t seed, uint64_t run) {
    Rng r(seed, run, "ard"); Hist H; H.cls = run % NCLS; const ClassInfo &ci = CLS[H.cls];
    { Rng pr(seed, run, "ard-companion"); if (pr.chance(1, 2)) { H.pre_cls = (int)pr.below(11); H.pre_key = pr.bytes(CLS[H.pre_cls].keylen); H.pre_blk = pr.bytes(CLS[H.pre_cls].bs); } }
    int n = 4 + r.below(40); bool keyed = false; Bytes prev_tweak;
    auto rb = [&](size_t k) { Bytes v(k); switch (r.below(8)) { case 0: break; case 1: std::fill(v.begin(), v.end(), 0xFF); break; default: r.fill(v.data(), k); } return v; };
    for (int i = 0; i < n; ++i) {
        Op o; unsigned c = r.below(100);
        if (!keyed || c < 10) { o.code = A_SETKEY; o.len = r.chance(5, 6) ? ci.keylen : (r.chance(1, 2) ? ci.keylen + ci.bs : r.below(50)); o.a = rb(o.len); if (o.len == ci.keylen) { keyed = true; prev_tweak.assign(ci.bs, 0); } }
        else if (ci.ctr) {
            if (c < 30) { o.code = A_SETIV; o.len = r.chance(7, 8) ? (ci.bs == 8 && r.chance(1, 2) ? 8 : 16) : r.below(20); o.a = rb(o.len); if (r.chance(1, 4) && o.len == 16) { std::fill(o.a.begin(), o.a.end(), 0xFF); o.a[15] = (uint8_t)(0xFF - r.below(6)); } }
            else if (c < 36) o.code = A_CLEAR, keyed = false;
            else if (c < 42) { o.code = A_SETCSIZE; static const unsigned CS[] = {16, 16, 16, 8, 4, 1, 0, 17, 255, 256, 257, 260, 264, 272, 516, 65552}; o.len = CS[r.below(16)]; }
            else { o.code = r.chance(1, 2) ? A_CENC : A_CDEC; static const unsigned L[] = {0, 1, 15, 16, 17, 31, 32, 33, 64, 100}; o.len = r.chance(1, 2) ? L[r.below(10)] : r.below(200); o.a = r.bytes(o.len); o.inplace = r.chance(1, 3); }
        } else {
            if (c < 30 && ci.tweaked) {
                o.code = A_SETTWEAK; o.len = r.chance(7, 8) ? ci.bs : r.below(20); o.a = rb(o.len); o.null = r.chance(1, 6);
                if (o.len == ci.bs && !prev_tweak.empty() && r.chance(1, 2)) {
                    // tweaks related to the previous one: counters and nonce||counter layouts are what real callers use
                    o.a = prev_tweak; unsigned h = ci.bs / 2;
                    switch (r.below(6)) {
                    case 0: break;                                                        // the same value again
                    case 1: o.a[ci.bs - 1] = (uint8_t)(o.a[ci.bs - 1] + 1); break;        // big-endian counter step
                    case 2: for (unsigned q = h; q < ci.bs; ++q) o.a[q] = r.byte(); break; // same first half
                    case 3: for (unsigned q = 0; q < h; ++q) o.a[q] = r.byte(); break;     // same second half
                    case 4: o.a[r.below(ci.bs)] ^= (uint8_t)(1u << r.below(8)); break;     // one bit away
                    default: o.a[0] = (uint8_t)(o.a[0] + 1); break;
                    }
                }
                if (o.len == ci.bs && !o.null) prev_tweak = o.a; else if (o.len == ci.bs) prev_tweak.assign(ci.bs, 0);
            }
            else if (c < 40 && H.cls == 10) o.code = A_SWAP;
            else if (c < 45) o.code = A_CLEAR, keyed = false;
            else { o.code = r.chance(1, 2) ? A_ENC : A_DEC; o.len = ci.bs; o.a = rb(ci.bs); o.inplace = r.chance(1, 3); }
        }
        H.ops.push_back(o);
    }
    return H;
}

struct Finding { std::string kind, msg; int op; };
static std::string op_str(const Hist &H, const Op &o) { return strf("%s::%s(%s%u byte(s)%s)", CLS[H.cls].name, AOPN[o.code], o.null ? "NULL, " : "", o.len, o.inplace ? ", in place" : ""); }

// E_K(block) for block-cipher class c by the C library (fresh schedule, zero tweak)
static void ref_encrypt_fresh(int c, const Bytes &key, const uint8_t *in, uint8_t *out) {
    const ClassInfo &ci = CLS[c];
    if (ci.fam == 0) { Skinny128TweakedKey_t k; memset(&k, 0, sizeof k); if (ci.tweaked) skinny128_set_tweaked_key(&k, key.data(), key.size()); else skinny128_set_key(&k.ks, key.data(), key.size()); skinny128_ecb_encrypt(out, in, &k.ks); }
    else if (ci.fam == 1) { Skinny64TweakedKey_t k; memset(&k, 0, sizeof k); if (ci.tweaked) skinny64_set_tweaked_key(&k, key.data(), key.size()); else skinny64_set_key(&k.ks, key.data(), key.size()); skinny64_ecb_encrypt(out, in, &k.ks); }
    else { MantisKey_t k; memset(&k, 0, sizeof k); mantis_set_key(&k, key.data(), 16, 8, MANTIS_ENCRYPT); mantis_ecb_crypt(out, in, &k); }
}
static std::vector<Finding> evaluate(const Hist &H, uint64_t *compared, std::vector<std::string> *trace) {
    std::vector<Finding> F; const ClassInfo &ci = CLS[H.cls];
    Ard P; bool have_p = H.pre_cls >= 0 && H.pre_cls <= 10;
    auto companion = [&](const char *when, uint8_t flip) -> bool {
        uint8_t in[16], oa[16], oc[16]; unsigned bs = CLS[H.pre_cls].bs; for (unsigned q = 0; q < bs; ++q) in[q] = H.pre_blk[q] ^ flip;
        P.bc->encryptBlock(oa, in); ref_encrypt_fresh(H.pre_cls, H.pre_key, in, oc); ++*compared;
        if (memcmp(oa, oc, bs) != 0) { F.push_back({"block-mismatch", strf("companion object %s (keyed once, zero tweak) %s the history on %s: Arduino %s, C library %s", CLS[H.pre_cls].name, when, ci.name, hex(oa, bs).c_str(), hex(oc, bs).c_str()), -1}); return false; }
        if (trace) trace->push_back(strf("companion %s::encryptBlock %s -> %s", CLS[H.pre_cls].name, when, hex(oa, bs).c_str()));
        return true;
    };
    if (have_p) { P = make_ard(H.pre_cls); if (!P.bc->setKey(H.pre_key.data(), H.pre_key.size())) { F.push_back({"return-value", strf("companion %s::setKey refused a key of the right length", CLS[H.pre_cls].name), -1}); return F; } if (!companion("before", 0)) return F; }
    Ard A = make_ard(H.cls); CRef C; memset(&C.k128, 0, sizeof C.k128); memset(&C.k64, 0, sizeof C.k64); memset(&C.km, 0, sizeof C.km);
    const bool ctr64 = ci.ctr && ci.bs == 8;
    if (ci.ctr && !ctr64) { skinny128_ctr_init(&C.ctr); C.ctr_init = true; }
    if (ctr64 && ci.fam == 1) { skinny64_ctr_init(&C.c64); C.c64_init = true; }
    if (ctr64 && ci.fam == 2) { mantis_ctr_init(&C.cm); C.cm_init = true; }
    auto c64_setctr = [&](const uint8_t *c) { if (ci.fam == 1) skinny64_ctr_set_counter(&C.c64, c, 8); else mantis_ctr_set_counter(&C.cm, c, 8); };
    for (size_t i = 0; i < H.ops.size(); ++i) {
        const Op &o = H.ops[i]; std::string note;
        switch (o.code) {
        case A_SETKEY: {
            bool ra = ci.ctr ? A.ctr->setKey(o.a.data(), o.len) : A.bc->setKey(o.a.data(), o.len);
            bool want = o.len == ci.keylen;
            if (ctr64) {      // refusing is fine; accepting obliges
                if (ra && !want) { F.push_back({"return-value", strf("%s accepted a key of the wrong length", op_str(H, o).c_str()), (int)i}); return F; }
                if (ra) { C.keyed = true; C.iv_set = false; if (ci.fam == 1) skinny64_ctr_set_key(&C.c64, o.a.data(), o.len); else mantis_ctr_set_key(&C.cm, o.a.data(), 16, 8);
                          if (C.zero_iv_pending) { uint8_t z[8] = {0}; c64_setctr(z); C.iv_set = true; } }
                note = strf("-> %d", ra); break;
            }
            if (ra != want) { F.push_back({"return-value", strf("%s returned %d, expected %d", op_str(H, o).c_str(), ra, want), (int)i}); return F; }
            if (want) {
                C.keyed = true; C.iv_set = false;
                if (ci.ctr) { if (ci.tweaked) skinny128_ctr_set_tweaked_key(&C.ctr, o.a.data(), o.len); else skinny128_ctr_set_key(&C.ctr, o.a.data(), o.len); }
                if (ci.ctr && C.zero_iv_pending) { uint8_t z[16] = {0}; skinny128_ctr_set_counter(&C.ctr, z, 16); C.iv_set = true; }     // clear(); setKey(); encrypt() starts at counter 0
                else if (ci.ctr && C.fresh_iv) { skinny128_ctr_set_counter(&C.ctr, C.last_iv, 16); C.iv_set = true; }                   // setIV(); setKey(); encrypt(): neither side's setKey touches the counter
                else if (ci.fam == 0) { if (ci.tweaked) skinny128_set_tweaked_key(&C.k128, o.a.data(), o.len); else skinny128_set_key(&C.k128.ks, o.a.data(), o.len); }
                else if (ci.fam == 1) { if (ci.tweaked) skinny64_set_tweaked_key(&C.k64, o.a.data(), o.len); else skinny64_set_key(&C.k64.ks, o.a.data(), o.len); }
                else mantis_set_key(&C.km, o.a.data(), 16, 8, MANTIS_ENCRYPT);
            }
            note = strf("-> %d", ra); break;
        }
        case A_SETTWEAK: {
            if (!A.setTweak) break;
            bool ra = A.setTweak(A, o.null ? nullptr : o.a.data(), o.len); bool want = o.len == ci.bs;
            if (ra != want) { F.push_back({"return-value", strf("%s returned %d, expected %d", op_str(H, o).c_str(), ra, want), (int)i}); return F; }
            if (want && C.keyed) {
                Bytes z(ci.bs, 0); const uint8_t *t = o.null ? z.data() : o.a.data();    // NULL means the all-zero tweak
                if (ci.fam == 0) skinny128_set_tweak(&C.k128, t, 16); else if (ci.fam == 1) skinny64_set_tweak(&C.k64, t, 8); else mantis_set_tweak(&C.km, t, 8);
            }
            note = strf("-> %d", ra); break;
        }
        case A_SWAP: if (A.swap) { A.swap(A); if (C.keyed) mantis_swap_modes(&C.km); } break;
        case A_CLEAR: if (ci.ctr) A.ctr->clear(); else A.bc->clear(); C.keyed = false; C.iv_set = false; C.zero_iv_pending = ci.ctr; C.fresh_iv = false; break;
        case A_ENC: case A_DEC: {
            if (ci.ctr) break;
            uint8_t in[16], oa[16], oc[16]; memcpy(in, o.a.data(), ci.bs);
            if (o.inplace) { memcpy(oa, in, ci.bs); if (o.code == A_ENC) A.bc->encryptBlock(oa, oa); else A.bc->decryptBlock(oa, oa); }
            else { if (o.code == A_ENC) A.bc->encryptBlock(oa, in); else A.bc->decryptBlock(oa, in); }
            if (!C.keyed) break;                      // undefined on both sides until the next successful setKey
            bool dec = o.code == A_DEC;
            if (ci.fam == 0) (dec ? skinny128_ecb_decrypt : skinny128_ecb_encrypt)(oc, in, &C.k128.ks);
            else if (ci.fam == 1) (dec ? skinny64_ecb_decrypt : skinny64_ecb_encrypt)(oc, in, &C.k64.ks);
            else mantis_ecb_crypt(oc, in, &C.km);     // Mantis8::decryptBlock is encryptBlock: the mode is whatever swapModes() left
            ++*compared;
            if (memcmp(oa, oc, ci.bs) != 0) { F.push_back({"block-mismatch", strf("%s: Arduino %s, C library %s", op_str(H, o).c_str(), hex(oa, ci.bs).c_str(), hex(oc, ci.bs).c_str()), (int)i}); return F; }
            note = "-> " + hex(oa, ci.bs); break;
        }
        case A_SETCSIZE: {
            if (!ci.ctr) break;
            bool ra = A.ctr->setCounterSize(o.len); bool want = o.len >= 1 && o.len <= 16;
            if (ra != want) { F.push_back({"return-value", strf("%s(%u) returned %d, expected %d", op_str(H, o).c_str(), o.len, ra, want), (int)i}); return F; }
            if (want) C.csize_restricted = o.len != 16;
            note = strf("-> %d", ra); break;
        }
        case A_SETIV: {
            if (!ci.ctr) break;
            if (ctr64) { bool r8 = A.ctr->setIV(o.a.data(), o.len); C.iv_set = false; if (r8 && o.len == 8) { c64_setctr(o.a.data()); C.iv_set = true; C.zero_iv_pending = false; } note = strf("-> %d", r8); break; }
            bool ra = A.ctr->setIV(o.a.data(), o.len); bool want = o.len == 16;
            if (ra != want) { F.push_back({"return-value", strf("%s returned %d, expected %d", op_str(H, o).c_str(), ra, want), (int)i}); return F; }
            if (want) { skinny128_ctr_set_counter(&C.ctr, o.a.data(), 16); C.iv_set = true; C.zero_iv_pending = false; C.fresh_iv = true; memcpy(C.last_iv, o.a.data(), 16); }
            note = strf("-> %d", ra); break;
        }
        case A_CENC: case A_CDEC: {
            if (!ci.ctr) break;
            if (!C.keyed || !C.iv_set) break;         // both sides are only defined after setKey + setIV
            if (o.len) { C.zero_iv_pending = false; C.fresh_iv = false; }       // the counter has moved on
            if (C.csize_restricted) { Bytes tmp(o.len), in2 = o.a; if (o.len) A.ctr->encrypt(tmp.data(), in2.data(), o.len); C.iv_set = false; break; }    // executed, not compared; the streams are out of step from here until the next setIV
            Bytes oa(o.len), oc(o.len), in = o.a;
            if (o.inplace) { oa = in; if (o.code == A_CENC) A.ctr->encrypt(oa.data(), oa.data(), o.len); else A.ctr->decrypt(oa.data(), oa.data(), o.len); }
            else { if (o.code == A_CENC) A.ctr->encrypt(oa.data(), in.data(), o.len); else A.ctr->decrypt(oa.data(), in.data(), o.len); }
            Bytes dummy(1); void *po = o.len ? oc.data() : dummy.data(); const void *pi = o.len ? in.data() : dummy.data();
            if (!ctr64) skinny128_ctr_encrypt(po, pi, o.len, &C.ctr); else if (ci.fam == 1) skinny64_ctr_encrypt(po, pi, o.len, &C.c64); else mantis_ctr_encrypt(po, pi, o.len, &C.cm);
            ++*compared;
            if (oa != oc) { size_t q = 0; while (q < o.len && oa[q] == oc[q]) ++q; F.push_back({"stream-mismatch", strf("%s: differs from the C library's CTR encrypt at byte %zu of the call", op_str(H, o).c_str(), q), (int)i}); return F; }
            note = "-> " + hex(oa.data(), std::min<size_t>(o.len, 16)); break;
        }
        }
        if (trace) trace->push_back(strf("#%zu %s %s", i, op_str(H, o).c_str(), note.c_str()));
    }
    if (have_p && F.empty()) companion("after", 0x5A);
    return F;
}

static void write_replay(const std::string &path, const Hist &H, uint64_t seed, uint64_t run, const Finding &f) {
    std::ofstream o(path);
    o << "# ardsim replay file\nengine ardsim\nprop C19\nflavour ard\nseed " << seed << "\nrun " << run << "\nexpect " << f.kind << "\nsig " << f.kind << ":" << CLS[H.cls].name << "\n# violation: " << f.msg << "\nclass " << H.cls << "\n";
    if (H.pre_cls >= 0) o << "companion " << H.pre_cls << " " << hex(H.pre_key) << " " << hex(H.pre_blk) << "\n";
    for (auto &p : H.ops) o << "op " << p.code << " " << p.len << " " << p.null << " " << p.inplace << " " << (p.a.empty() ? "-" : hex(p.a)) << "\n";
}
static bool read_replay(const std::string &path, Hist &H) {
    std::ifstream f(path); if (!f) return false; std::string ln;
    while (std::getline(f, ln)) {
        if (ln.empty() || ln[0] == '#') continue; std::istringstream is(ln); std::string t; is >> t;
        if (t == "class") is >> H.cls; else if (t == "companion") { std::string k, b; is >> H.pre_cls >> k >> b; H.pre_key = unhex(k); H.pre_blk = unhex(b); } else if (t == "op") { Op o; std::string h; int n, ip; is >> o.code >> o.len >> n >> ip >> h; o.null = n; o.inplace = ip; if (h != "-") o.a = unhex(h); H.ops.push_back(o); }
    }
    return !H.ops.empty();
}

int main(int argc, char **argv) {
    std::string out, replay, tier = "quick", outdir = "/verif/build/out", replaydir = "/verif/replays"; uint64_t seed = 1, runs = 0, first = 0; int nw = 16;
    for (int i = 1; i < argc; ++i) {
        std::string a = argv[i]; auto nxt = [&]() { return i + 1 < argc ? std::string(argv[++i]) : std::string(); };
        if (a == "--seed") seed = strtoull(nxt().c_str(), 0, 10); else if (a == "--runs") runs = strtoull(nxt().c_str(), 0, 10); else if (a == "--first") first = strtoull(nxt().c_str(), 0, 10);
        else if (a == "--workers") nw = atoi(nxt().c_str()); else if (a == "--out") out = nxt(); else if (a == "--replay") replay = nxt(); else if (a == "--tier") tier = nxt(); else if (a == "--outdir") outdir = nxt(); else if (a == "--replaydir") replaydir = nxt();
    }
    SimCPU::install();   // the library objects carry the CPUID trap; no model is set, so the real CPU answers
    if (argc == 4 && std::string(argv[1]) == "--eval") {     // one history in a process that has run nothing else: exit 1 if it fails
        Hist H = make_hist(strtoull(argv[2], 0, 10), strtoull(argv[3], 0, 10)); uint64_t c2 = 0; return evaluate(H, &c2, nullptr).empty() ? 0 : 1;
    }
    if (!replay.empty()) {
        Hist H; if (!read_replay(replay, H)) { fprintf(stderr, "cannot read %s\n", replay.c_str()); return 2; }
        uint64_t cmp = 0; std::vector<std::string> tr; auto F = evaluate(H, &cmp, &tr);
        for (auto &l : tr) printf("%s\n", l.c_str());
        if (F.empty()) { printf("REPLAY-CLEAN property=C19 file=%s\n", replay.c_str()); return 0; }
        for (auto &f : F) printf("REPLAY-VIOLATION property=C19 inv=%s op=%d\n    %s\n", f.kind.c_str(), f.op, f.msg.c_str());
        printf("VIOLATION property=C19 replay=%s\n", replay.c_str()); return 1;
    }
    if (!runs) runs = tier == "thorough" ? 3000000 : 60000;
    if (system(("mkdir -p " + outdir + " " + replaydir).c_str())) {}
    auto t0 = std::chrono::steady_clock::now();
    uint64_t nruns = 0, compared = 0, nops = 0, carried_over = 0; std::set<uint64_t> cover; int nsamp = 0;
    PoolResult pr = run_pool(nw, first, runs, outdir + "/C19-" + std::to_string(getpid()),
        [&](uint64_t i, FILE *f) {
            Hist H = make_hist(seed, i); auto F = evaluate(H, &compared, nullptr); ++nruns; nops += H.ops.size();
            if (!F.empty()) {
                // does it also fail in a process that has run nothing else?  If not, earlier histories of this worker left state behind
                // in the classes (hidden state shared between objects): such a failure cannot be replayed from its own history; the
                // companion-object histories are there to produce the same defect reproducibly
                fflush(f); pid_t pid = fork(); if (pid == 0) { execl("/proc/self/exe", "ardsim", "--eval", std::to_string(seed).c_str(), std::to_string(i).c_str(), (char *)0); _exit(3); }
                int st = 0; waitpid(pid, &st, 0);
                if (!(WIFEXITED(st) && WEXITSTATUS(st) == 1)) { F.clear(); ++carried_over; }
            }
            int prev = -1; for (auto &o : H.ops) { cover.insert(hash_comb((uint64_t)H.cls << 16 | o.code << 8 | (prev + 1), (uint64_t)(o.len == CLS[H.cls].keylen) << 3 | o.null << 2 | o.inplace << 1 | (o.len == 0))); prev = o.code; }
            if (!F.empty()) { std::string m = F[0].msg; for (char &c : m) if (c == '\t' || c == '\n') c = ' '; fprintf(f, "V %llu\t%s\t%s:%s\t%s\n", (unsigned long long)i, F[0].kind.c_str(), F[0].kind.c_str(), CLS[H.cls].name, m.c_str()); fflush(f); }
            if (nsamp < 1 && H.ops.size() < 12) { ++nsamp; std::string s; for (auto &o : H.ops) s += op_str(H, o) + "; "; fprintf(f, "X run %llu: %s\n", (unsigned long long)i, s.c_str()); }
        },
        [&](FILE *f) { fprintf(f, "S runs %llu\nS results_compared %llu\nS ops %llu\nS failures_only_after_other_histories_in_the_same_process %llu\n", (unsigned long long)nruns, (unsigned long long)compared, (unsigned long long)nops, (unsigned long long)carried_over); for (uint64_t h : cover) fprintf(f, "H %016llx\n", (unsigned long long)h); });
    double wall = std::chrono::duration<double>(std::chrono::steady_clock::now() - t0).count();
    std::map<std::string, uint64_t> stats; std::set<std::string> hashes; std::vector<std::string> samples;
    struct RawV { uint64_t run; std::string kind, sig, msg; }; std::vector<RawV> raws;
    for (auto &ln : pr.lines) {
        if (ln.size() < 2) continue;
        if (ln[0] == 'S') { char k[64]; unsigned long long v; if (sscanf(ln.c_str(), "S %63s %llu", k, &v) == 2) stats[k] += v; }
        else if (ln[0] == 'H') hashes.insert(ln.substr(2)); else if (ln[0] == 'X') { if (samples.size() < 5) samples.push_back(ln.substr(2)); }
        else if (ln[0] == 'V') { std::vector<std::string> parts; size_t pos = 2; while (true) { size_t t = ln.find('\t', pos); if (t == std::string::npos) { parts.push_back(ln.substr(pos)); break; } parts.push_back(ln.substr(pos, t - pos)); pos = t + 1; } if (parts.size() >= 4) raws.push_back({strtoull(parts[0].c_str(), 0, 10), parts[1], parts[2], parts[3]}); }
    }
    for (auto &d : pr.deaths) raws.push_back({d.first, "worker-death", "worker-death", strf("worker died with status 0x%x", d.second)});
    std::sort(raws.begin(), raws.end(), [](const RawV &a, const RawV &b) { return a.run < b.run; });
    std::map<std::string, uint64_t> sigc; for (auto &r : raws) ++sigc[r.sig];
    std::string vj; std::set<std::string> seen; int nfinal = 0, nondet = 0;
    for (auto &rv : raws) {
        if (seen.count(rv.sig) || nfinal >= 6) continue; seen.insert(rv.sig);
        Hist H = make_hist(seed, rv.run); size_t before = H.ops.size(); int trials = 0; uint64_t cmp = 0;
        if (rv.kind != "worker-death") {
            // every trial in a fresh fork of this (still pristine) process: hidden static state in the classes must not leak from trial to trial
            auto fails = [&](const Hist &Q) { ++trials; fflush(stdout); fflush(stderr); pid_t pid = fork(); if (pid == 0) { uint64_t c2 = 0; auto F = evaluate(Q, &c2, nullptr); _exit(!F.empty() && F[0].kind == rv.kind ? 1 : 0); } int st = 0; waitpid(pid, &st, 0); return WIFEXITED(st) && WEXITSTATUS(st) == 1; };
            if (H.pre_cls >= 0) { Hist Q = H; Q.pre_cls = -1; if (fails(Q)) H = Q; }      // is the companion object needed at all?
            if (!fails(H) || !fails(H)) { fprintf(stderr, "ardsim: run %llu does not repeat\n", (unsigned long long)rv.run); ++nondet; continue; }
            size_t n = 2;
            while (H.ops.size() >= 2 && trials < 800) {
                size_t chunk = (H.ops.size() + n - 1) / n; bool red = false;
                for (size_t st = 0; st < H.ops.size(); st += chunk) { Hist Q = H; Q.ops.erase(Q.ops.begin() + st, Q.ops.begin() + std::min(st + chunk, Q.ops.size())); if (!Q.ops.empty() && fails(Q)) { H = Q; n = std::max<size_t>(n - 1, 2); red = true; break; } }
                if (!red) { if (chunk <= 1) break; n = std::min(n * 2, H.ops.size()); }
            }
        }
        // this process never evaluates a history itself (it must stay pristine for the forked trials): the trace and the
        // final message come from the replay of the minimised file in a fresh exec
        std::vector<std::string> tr; Finding fnd{rv.kind, rv.msg, -1};
        std::string path = strf("%s/C19-ard-%llu-%llu.replay", replaydir.c_str(), (unsigned long long)seed, (unsigned long long)rv.run);
        write_replay(path, H, seed, rv.run, fnd);
        int pfd[2]; if (pipe(pfd) != 0) return 2;
        fflush(stdout); pid_t pid = fork(); if (pid == 0) { close(pfd[0]); dup2(pfd[1], 1); execl("/proc/self/exe", "ardsim", "--replay", path.c_str(), (char *)0); _exit(3); }
        close(pfd[1]); std::string outp; { char buf[4096]; ssize_t n; while ((n = read(pfd[0], buf, sizeof buf)) > 0) outp.append(buf, (size_t)n); close(pfd[0]); }
        int st = 0; waitpid(pid, &st, 0); bool rep = WIFEXITED(st) && WEXITSTATUS(st) == 1; if (!rep && rv.kind != "worker-death") { fprintf(stderr, "ardsim: replay %s did not reproduce\n", path.c_str()); ++nondet; continue; }
        { std::istringstream is(outp); std::string ln; bool next_is_msg = false; while (std::getline(is, ln)) { if (next_is_msg) { size_t q = ln.find_first_not_of(' '); fnd.msg = q == std::string::npos ? ln : ln.substr(q); next_is_msg = false; tr.push_back("!! " + fnd.msg); continue; } if (ln.rfind("REPLAY-VIOLATION", 0) == 0) { next_is_msg = true; continue; } if (ln.rfind("VIOLATION", 0) == 0) continue; if (tr.size() < 80) tr.push_back(ln); } }
        write_replay(path, H, seed, rv.run, fnd);
        std::string tj = "["; for (size_t i = 0; i < tr.size(); ++i) tj += (i ? "," : "") + jstr(tr[i]); tj += "]";
        vj += strf("%s    {\"inv\": %s, \"sig\": %s, \"run\": %llu, \"op\": %d, \"msg\": %s, \"replay\": %s, \"ops_before\": %zu, \"ops_after\": %zu, \"trials\": %d, \"reproduced_in_fresh_process\": %s, \"occurrences\": %llu, \"trace\": %s}",
                   nfinal ? ",\n" : "", jstr(rv.kind).c_str(), jstr(rv.sig).c_str(), (unsigned long long)rv.run, fnd.op, jstr(fnd.msg).c_str(), jstr(path).c_str(), before, H.ops.size(), trials, rep ? "true" : "false", (unsigned long long)sigc[rv.sig], tj.c_str());
        ++nfinal;
    }
    std::string j = "{\n";
    j += strf("  \"property\": \"C19\", \"flavour\": \"ard\", \"tier\": %s, \"seed\": %llu, \"first_run\": %llu, \"runs_requested\": %llu, \"workers\": %d, \"wall_s\": %.3f,\n", jstr(tier).c_str(), (unsigned long long)seed, (unsigned long long)first, (unsigned long long)runs, nw, wall);
    j += "  \"stats\": {"; { bool f1 = true; for (auto &kv : stats) { j += strf("%s\"%s\": %llu", f1 ? "" : ", ", kv.first.c_str(), (unsigned long long)kv.second); f1 = false; } } j += "},\n  \"probes\": {},\n";
    j += "  \"transition_hashes\": ["; { bool f1 = true; for (auto &h : hashes) { j += (f1 ? "" : ",") + jstr(h); f1 = false; } } j += "],\n";
    j += "  \"samples\": ["; for (size_t i = 0; i < samples.size(); ++i) j += (i ? "," : "") + jstr(samples[i]); j += "],\n";
    j += strf("  \"raw_violations\": %zu, \"harness_nondeterminism\": %d,\n  \"violations\": [\n%s\n  ]\n}\n", raws.size(), nondet, vj.c_str());
    if (!out.empty()) { std::ofstream f(out); f << j; } else fputs(j.c_str(), stdout);
    // as in objsim/thrsim: a raw violation that does not repeat is a harness fault (exit 2) unless others of the same batch were
    // confirmed in fresh processes - then hidden state in the classes coupling the histories of one worker is the likely cause
    if (nondet && nfinal == 0) return 2;
    return nfinal ? 1 : 0;
}
